package main

// Normalised view of the repository: calls of simple private helpers
// (unexported package-level functions and methods, single-assignment local
// closures) are expanded in place, the result is handed to go/packages as an
// overlay and type-checked again. A rule that fails on the program as written
// is evaluated once more on this view (see main.go); it is what makes the
// shape rules indifferent to extract-method / inline-method refactorings.
//
// Decisions are taken on the type-checked AST (which identifier refers to
// which parameter or local, whether a free name means the same object at the
// call site) and applied by byte offset to a freshly parsed copy of the same
// file, so nothing depends on names. Only helpers whose expansion is a plain
// textual substitution are expanded:
//   - no defer, recover, labels, goto, select-less early returns in spliced bodies;
//   - parameters are never assigned to nor have their address taken;
//   - arguments are side-effect-free (names, selectors, literals, &name,
//     len/cap, index/arith of those) or function literals;
//   - forms: `h(a)` as a statement, `go h(a)`, `x := h(a)` / `x = h(a)` /
//     `return h(a)` with a helper whose only return is its last statement, and
//     helpers consisting of a single `return expr` anywhere in an expression.

import (
	"bytes"
	"fmt"
	"go/ast"
	"go/parser"
	"go/printer"
	"go/token"
	"go/types"
	"os"
	"reflect"
	"regexp"
	"sort"
	"strings"

	"golang.org/x/tools/go/ast/astutil"
)

type inlineHelper struct {
	file       string
	bodyLbrace int // offset of the body's "{" in file
	bodyEnd    int // offset of the body's "}"
	isLit      bool
	recvOff    int            // offset of the receiver identifier declaration (-1 none)
	paramUse   map[int]int    // identifier offset (in file) -> parameter index (-1 = receiver)
	localUse   map[int]string // identifier offset -> declared local name (for renaming when spliced)
	nParams    int
	singleExpr bool // body is `return expr`
	tailReturn bool // body ends with the only return statement (with results)
	noReturn   bool // body has no return statement at all (or a trailing bare return)
	allResults bool // every return statement of the body carries the full result list
	results    int
	name       string
	assigned   map[int]bool // parameter index is assigned / incremented / address-taken in the body: always bound to a fresh local
}

type inlineSite struct {
	file     string
	callOff  int
	kind     string // stmt | go | value | expr
	helper   *inlineHelper
	conv     []bool // argument i is an untyped constant or nil: wrap it in a conversion to the parameter's type
	bind     []bool // argument i is not side-effect free: it is evaluated once into a fresh local in front of the expansion
	recvAddr bool   // the receiver expression is an addressable value (x.m() with m on *T): substitute &x
}

// simpleArg: evaluating the argument has no effect and may be repeated or dropped.
func simpleArg(info *types.Info, e ast.Expr, depth int) bool {
	e = ast.Unparen(e)
	if depth > 4 {
		return false
	}
	if tv, ok := info.Types[e]; ok && tv.Value != nil {
		return true
	}
	switch t := e.(type) {
	case *ast.Ident:
		return true
	case *ast.BasicLit:
		return true
	case *ast.SelectorExpr:
		if _, isField := info.Selections[t]; isField {
			return info.Selections[t].Kind() == types.FieldVal && simpleArg(info, t.X, depth+1)
		}
		return true // qualified identifier
	case *ast.UnaryExpr:
		if t.Op == token.AND || t.Op == token.SUB || t.Op == token.NOT {
			return simpleArg(info, t.X, depth+1)
		}
	case *ast.StarExpr:
		return false
	case *ast.BinaryExpr:
		switch t.Op {
		case token.ADD, token.SUB, token.MUL, token.LSS, token.GTR, token.LEQ, token.GEQ, token.EQL, token.NEQ, token.LAND, token.LOR:
			return simpleArg(info, t.X, depth+1) && simpleArg(info, t.Y, depth+1)
		}
	case *ast.CallExpr:
		if n := calleeName(info, t); (n == "builtin.len" || n == "builtin.cap") && len(t.Args) == 1 {
			return simpleArg(info, t.Args[0], depth+1)
		}
		if isConversion(info, t) && len(t.Args) == 1 {
			return simpleArg(info, t.Args[0], depth+1)
		}
	case *ast.FuncLit:
		return true
	case *ast.SliceExpr:
		return false
	case *ast.IndexExpr:
		return false
	}
	return false
}

// analyseHelper decides whether the function body can be expanded and records
// the identifier offsets needed for substitution.
func analyseHelper(c *Ctx, p *packagesPkg, name string, ftype *ast.FuncType, recv *ast.FieldList, body *ast.BlockStmt, isLit bool) *inlineHelper {
	info := p.TypesInfo
	if body == nil || ftype.TypeParams != nil {
		return nil
	}
	off := func(pos token.Pos) int { return c.Fset.Position(pos).Offset }
	h := &inlineHelper{file: c.Fset.Position(body.Pos()).Filename, bodyLbrace: off(body.Lbrace), bodyEnd: off(body.Rbrace), isLit: isLit, recvOff: -1, paramUse: map[int]int{}, localUse: map[int]string{}, name: name, assigned: map[int]bool{}}
	paramIdx := map[types.Object]int{}
	if recv != nil {
		if len(recv.List) != 1 || len(recv.List[0].Names) != 1 {
			return nil
		}
		ro := info.Defs[recv.List[0].Names[0]]
		if ro == nil {
			return nil
		}
		// value receivers copy the object: only pointer receivers are substituted
		if _, isPtr := ro.Type().(*types.Pointer); !isPtr {
			return nil
		}
		paramIdx[ro] = -1
	}
	if ftype.Params != nil {
		for _, f := range ftype.Params.List {
			if len(f.Names) == 0 {
				if len(ftype.Params.List) > 0 {
					return nil
				}
			}
			if _, variadic := f.Type.(*ast.Ellipsis); variadic {
				return nil
			}
			for _, id := range f.Names {
				if id.Name == "_" {
					return nil
				}
				paramIdx[info.Defs[id]] = h.nParams
				h.nParams++
			}
		}
	}
	if ftype.Results != nil {
		for _, f := range ftype.Results.List {
			if len(f.Names) > 0 {
				return nil // named results
			}
			h.results++
		}
	}
	ok := true
	nReturns := 0
	var lastReturn *ast.ReturnStmt
	locals := map[types.Object]bool{}
	ast.Inspect(body, func(n ast.Node) bool {
		switch t := n.(type) {
		case *ast.DeferStmt, *ast.LabeledStmt, *ast.BranchStmt:
			if b, isB := t.(*ast.BranchStmt); isB && b.Label == nil && (b.Tok == token.BREAK || b.Tok == token.CONTINUE) {
				return true
			}
			ok = false
		case *ast.FuncLit:
			// nested literals keep their own returns; fine
			return true
		case *ast.ReturnStmt:
			nReturns++
			lastReturn = t
		case *ast.CallExpr:
			if n := calleeName(info, t); n == "builtin.recover" {
				ok = false
			}
		case *ast.AssignStmt:
			for _, l := range t.Lhs {
				if id, isId := ast.Unparen(l).(*ast.Ident); isId {
					if pi, isParam := paramIdx[info.Uses[id]]; isParam {
						if pi < 0 {
							ok = false // receiver re-assigned
						} else {
							h.assigned[pi] = true // the parameter is a local of the helper: bound to a fresh local at the call site
						}
					}
				}
			}
		case *ast.IncDecStmt:
			if id, isId := ast.Unparen(t.X).(*ast.Ident); isId {
				if pi, isParam := paramIdx[info.Uses[id]]; isParam {
					if pi < 0 {
						ok = false
					} else {
						h.assigned[pi] = true
					}
				}
			}
		case *ast.UnaryExpr:
			if t.Op == token.AND {
				if id, isId := ast.Unparen(t.X).(*ast.Ident); isId {
					if pi, isParam := paramIdx[info.Uses[id]]; isParam {
						if pi < 0 {
							ok = false
						} else {
							h.assigned[pi] = true
						}
					}
				}
			}
		case *ast.Ident:
			if o := info.Defs[t]; o != nil {
				if _, isVar := o.(*types.Var); isVar {
					locals[o] = true
				}
			}
		}
		return true
	})
	if !ok {
		return nil
	}
	// returns nested in function literals do not count
	nOwn := 0
	inspectNoLit(body, func(n ast.Node) bool {
		if _, isRet := n.(*ast.ReturnStmt); isRet {
			nOwn++
		}
		return true
	})
	_ = nReturns
	last := ast.Stmt(nil)
	if len(body.List) > 0 {
		last = body.List[len(body.List)-1]
	}
	switch {
	case nOwn == 0:
		h.noReturn = true
	case nOwn == 1 && last != nil:
		if rs, isRet := last.(*ast.ReturnStmt); isRet && rs == lastReturnOwn(body) {
			if len(rs.Results) == 0 {
				h.noReturn = true
			} else if len(rs.Results) == h.results {
				h.tailReturn = true
				if len(body.List) == 1 && h.results == 1 {
					h.singleExpr = true
				}
			} else {
				return nil
			}
		}
	}
	_ = lastReturn
	if h.results > 0 && nOwn > 0 {
		h.allResults = true
		inspectNoLit(body, func(n ast.Node) bool {
			if rs, isRet := n.(*ast.ReturnStmt); isRet && len(rs.Results) != h.results {
				h.allResults = false
			}
			return true
		})
	}
	// identifier offsets
	ast.Inspect(body, func(n ast.Node) bool {
		id, isId := n.(*ast.Ident)
		if !isId {
			return true
		}
		o := info.Uses[id]
		if o == nil {
			o = info.Defs[id]
		}
		if o == nil {
			return true
		}
		if idx, isParam := paramIdx[o]; isParam {
			h.paramUse[off(id.Pos())] = idx
		} else if locals[o] {
			h.localUse[off(id.Pos())] = id.Name
		}
		return true
	})
	return h
}

func lastReturnOwn(body *ast.BlockStmt) *ast.ReturnStmt {
	var out *ast.ReturnStmt
	inspectNoLit(body, func(n ast.Node) bool {
		if rs, ok := n.(*ast.ReturnStmt); ok {
			out = rs
		}
		return true
	})
	return out
}

// freeNamesAgree: every free identifier of the helper body (package-level or
// universe object, or - for local closures - an enclosing local) denotes the
// same object when looked up by name at the call site.
func freeNamesAgree(info *types.Info, pkg *types.Package, body *ast.BlockStmt, inner map[types.Object]bool, callPos token.Pos, callerScope *types.Scope) bool {
	ok := true
	ast.Inspect(body, func(n ast.Node) bool {
		switch t := n.(type) {
		case *ast.SelectorExpr:
			// the selected name is resolved through its operand, not by scope
			ast.Inspect(t.X, func(m ast.Node) bool { return checkFree(info, pkg, m, inner, callPos, callerScope, &ok) })
			return false
		case *ast.KeyValueExpr:
			// struct literal keys are field names
			if _, isId := t.Key.(*ast.Ident); isId {
				if info.Uses[t.Key.(*ast.Ident)] != nil {
					if v, isVar := info.Uses[t.Key.(*ast.Ident)].(*types.Var); isVar && v.IsField() {
						ast.Inspect(t.Value, func(m ast.Node) bool { return checkFree(info, pkg, m, inner, callPos, callerScope, &ok) })
						return false
					}
				}
			}
		}
		return checkFree(info, pkg, n, inner, callPos, callerScope, &ok)
	})
	return ok
}

func checkFree(info *types.Info, pkg *types.Package, n ast.Node, inner map[types.Object]bool, callPos token.Pos, callerScope *types.Scope, ok *bool) bool {
	if se, isSel := n.(*ast.SelectorExpr); isSel {
		ast.Inspect(se.X, func(m ast.Node) bool { return checkFree(info, pkg, m, inner, callPos, callerScope, ok) })
		return false
	}
	id, isId := n.(*ast.Ident)
	if !isId || id.Name == "_" {
		return true
	}
	o := info.Uses[id]
	if o == nil || inner[o] {
		return true
	}
	if v, isVar := o.(*types.Var); isVar && v.IsField() {
		return true
	}
	if callerScope == nil {
		*ok = false
		return true
	}
	_, found := callerScope.LookupParent(id.Name, callPos)
	if found != o {
		// every file has its own object for an imported package name
		if pn, isPkg := o.(*types.PkgName); isPkg {
			if fn, isPkg2 := found.(*types.PkgName); isPkg2 && fn.Imported() == pn.Imported() {
				return true
			}
		}
		*ok = false
	}
	return true
}

// planInlining walks the typed program and decides what to expand.
func planInlining(c *Ctx) []inlineSite {
	var sites []inlineSite
	for _, p := range c.Pkgs {
		if isTestSupportPkg(p.PkgPath) {
			continue
		}
		info := p.TypesInfo
		helpers := map[types.Object]*inlineHelper{}
		helperBody := map[types.Object]*ast.BlockStmt{}
		helperInner := map[types.Object]map[types.Object]bool{}
		helperResults := map[types.Object]*ast.FieldList{}
		innerOf := func(recv *ast.FieldList, ft *ast.FuncType, body *ast.BlockStmt) map[types.Object]bool {
			m := map[types.Object]bool{}
			add := func(fl *ast.FieldList) {
				if fl == nil {
					return
				}
				for _, f := range fl.List {
					for _, id := range f.Names {
						if o := info.Defs[id]; o != nil {
							m[o] = true
						}
					}
				}
			}
			add(recv)
			add(ft.Params)
			add(ft.Results)
			ast.Inspect(body, func(n ast.Node) bool {
				if id, ok := n.(*ast.Ident); ok {
					if o := info.Defs[id]; o != nil {
						m[o] = true
					}
				}
				// implicit objects of type switches
				if ts, ok := n.(*ast.TypeSwitchStmt); ok {
					for _, cc := range ts.Body.List {
						if o := info.Implicits[cc]; o != nil {
							m[o] = true
						}
					}
				}
				return true
			})
			return m
		}
		for _, file := range p.Syntax {
			for _, d := range file.Decls {
				fd, ok := d.(*ast.FuncDecl)
				if !ok || fd.Body == nil || fd.Name.IsExported() || fd.Name.Name == "init" || fd.Name.Name == "main" {
					continue
				}
				obj := info.Defs[fd.Name]
				if obj == nil {
					continue
				}
				// the view undoes extract-method: only functions that the pinned tree does not have are
				// expanded. Helpers of the pinned tree are part of the shape the rules were written against
				// (many are recognised by name where they are called).
				if fo, isF := obj.(*types.Func); isF && frozenHasFunc(p.PkgPath, funcObjDisplay(fo)) {
					continue
				}
				if h := analyseHelper(c, p, fd.Name.Name, fd.Type, fd.Recv, fd.Body, false); h != nil {
					helpers[obj] = h
					helperBody[obj] = fd.Body
					helperInner[obj] = innerOf(fd.Recv, fd.Type, fd.Body)
					helperResults[obj] = fd.Type.Results
				}
			}
		}
		// local closures: v := func(..) {..} with v assigned once
		for _, file := range p.Syntax {
			for _, d := range file.Decls {
				fd, ok := d.(*ast.FuncDecl)
				if !ok || fd.Body == nil {
					continue
				}
				assigns := map[types.Object]int{}
				lits := map[types.Object]*ast.FuncLit{}
				ast.Inspect(fd.Body, func(n ast.Node) bool {
					switch t := n.(type) {
					case *ast.AssignStmt:
						for i, l := range t.Lhs {
							if o := identObj(info, l); o != nil {
								assigns[o]++
								if len(t.Rhs) == len(t.Lhs) {
									if fl, ok := ast.Unparen(t.Rhs[i]).(*ast.FuncLit); ok && t.Tok == token.DEFINE {
										lits[o] = fl
									}
								}
							}
						}
					case *ast.UnaryExpr:
						if t.Op == token.AND {
							if o := identObj(info, t.X); o != nil {
								assigns[o] += 2
							}
						}
					}
					return true
				})
				encl := ""
				if fo, isF := info.Defs[fd.Name].(*types.Func); isF {
					encl = funcObjDisplay(fo)
				}
				for o, fl := range lits {
					if assigns[o] != 1 {
						continue
					}
					if frozenHasLocal(p.PkgPath, encl, o.Name()) {
						continue // a closure the pinned tree already has
					}
					if h := analyseHelper(c, p, o.Name(), fl.Type, nil, fl.Body, true); h != nil {
						helpers[o] = h
						helperBody[o] = fl.Body
						helperInner[o] = innerOf(nil, fl.Type, fl.Body)
						helperResults[o] = fl.Type.Results
					}
				}
			}
		}
		if len(helpers) == 0 {
			continue
		}
		// call sites
		for _, file := range p.Syntax {
			fname := c.Fset.Position(file.Pos()).Filename
			var stack []ast.Node
			ast.Inspect(file, func(n ast.Node) bool {
				if n == nil {
					stack = stack[:len(stack)-1]
					return true
				}
				stack = append(stack, n)
				call, ok := n.(*ast.CallExpr)
				if !ok {
					return true
				}
				var target types.Object
				var recvExpr ast.Expr
				recvAddr := false
				switch fn := ast.Unparen(call.Fun).(type) {
				case *ast.Ident:
					target = info.Uses[fn]
				case *ast.SelectorExpr:
					if sel, isSel := info.Selections[fn]; isSel && sel.Kind() == types.MethodVal {
						target = sel.Obj()
						recvExpr = fn.X
					} else {
						target = info.Uses[fn.Sel]
					}
				}
				if f, isFn := target.(*types.Func); isFn {
					target = f.Origin()
				}
				h := helpers[target]
				if h == nil || len(call.Args) != h.nParams || call.Ellipsis.IsValid() {
					return true
				}
				// not inside the helper itself (recursion)
				if within(helperBody[target], call.Pos()) {
					return true
				}
				if h.recvOff == -1 && recvExpr != nil {
					// method: the receiver expression must be a plain pointer-valued name or field path
					if !simpleArg(info, recvExpr, 0) {
						return true
					}
					if _, isPtr := info.TypeOf(recvExpr).(*types.Pointer); !isPtr {
						// x.m() with m declared on *T and x an addressable local variable: Go takes &x implicitly
						rv, isVar := identObj(info, recvExpr).(*types.Var)
						if !isVar || rv.IsField() || rv.Pkg() == nil || rv.Parent() == rv.Pkg().Scope() {
							return true
						}
						recvAddr = true
					}
				}
				bind := make([]bool, len(call.Args))
				anyBind := false
				for i, a := range call.Args {
					if !simpleArg(info, a, 0) || h.assigned[i] {
						bind[i] = true
						anyBind = true
					}
				}
				// context
				parent := ast.Node(nil)
				if len(stack) >= 2 {
					parent = stack[len(stack)-2]
				}
				inList := func(st ast.Stmt) bool {
					if len(stack) < 3 {
						return false
					}
					// find st's parent
					for i := len(stack) - 1; i >= 1; i-- {
						if stack[i] == ast.Node(st) {
							switch pp := stack[i-1].(type) {
							case *ast.BlockStmt:
								return true
							case *ast.CaseClause:
								for _, s := range pp.Body {
									if s == st {
										return true
									}
								}
							case *ast.CommClause:
								for _, s := range pp.Body {
									if s == st {
										return true
									}
								}
							}
							return false
						}
					}
					return false
				}
				kind := ""
				switch pt := parent.(type) {
				case *ast.ExprStmt:
					if h.noReturn && h.results == 0 && inList(pt) {
						kind = "stmt"
					} else if h.results == 0 && inList(pt) {
						kind = "stmtloop" // early returns: the body runs inside a labelled one-pass loop, `return` becomes `break`
					} else if h.results > 0 && inList(pt) && pt.X == ast.Expr(call) {
						kind = "dropresult" // h(a) with its results discarded: becomes `_ = h(a)`, expanded in the next round
					}
				case *ast.GoStmt:
					if pt.Call == call && h.results == 0 {
						kind = "go"
					}
				case *ast.AssignStmt:
					if len(pt.Rhs) == 1 && pt.Rhs[0] == ast.Expr(call) && len(pt.Lhs) == h.results && inList(pt) && (pt.Tok == token.DEFINE || pt.Tok == token.ASSIGN) {
						if h.tailReturn {
							kind = "value"
						} else if h.allResults {
							// several returns: every left-hand side must be a plain name that is new here (:=) or assignable (=)
							okLhs := true
							for _, l := range pt.Lhs {
								id, isId := l.(*ast.Ident)
								if !isId {
									okLhs = false
									break
								}
								if pt.Tok == token.DEFINE && id.Name != "_" && info.Defs[id] == nil {
									okLhs = false
								}
							}
							if okLhs {
								kind = "tailassign"
							}
						}
					}
				case *ast.ReturnStmt:
					if len(pt.Results) == 1 && pt.Results[0] == ast.Expr(call) && inList(pt) {
						if h.tailReturn {
							kind = "value"
						} else if h.allResults {
							kind = "retsplice"
						}
					}
				}
				if as, isAs := parent.(*ast.AssignStmt); kind == "" && isAs && len(stack) >= 3 && as.Tok == token.DEFINE && len(as.Rhs) == 1 && as.Rhs[0] == ast.Expr(call) {
					// `if x := h(a); cond { .. }`: move the initialiser in front of the if, inside a block of
					// its own (same scope for x); the next round expands the plain assignment
					if is, isIf := stack[len(stack)-3].(*ast.IfStmt); isIf && is.Init == ast.Stmt(as) && inList(is) {
						kind = "ifinit"
					}
				}
				if kind == "" && h.singleExpr && !anyBind {
					kind = "expr"
				}
				if kind == "" && h.results == 1 {
					// the call sits inside a larger expression of a plain statement: evaluate it into a fresh
					// local in front of the statement (the next round expands that assignment). Admissible
					// when nothing else in the statement has an effect or is evaluated conditionally.
					var host ast.Stmt
					okHost := true
					for i := len(stack) - 2; i >= 0 && host == nil; i-- {
						switch t := stack[i].(type) {
						case *ast.FuncLit:
							okHost = false
						case *ast.BinaryExpr:
							if t.Op == token.LAND || t.Op == token.LOR {
								okHost = false
							}
						case *ast.ExprStmt, *ast.AssignStmt, *ast.ReturnStmt:
							host = t.(ast.Stmt)
						case ast.Stmt:
							okHost = false
						}
						if !okHost {
							break
						}
					}
					if okHost && host != nil && inList(host) {
						pure := true
						ancestors := map[ast.Node]bool{}
						for _, a := range stack {
							ancestors[a] = true
						}
						ast.Inspect(host, func(m ast.Node) bool {
							if m == ast.Node(call) {
								return false // the call's own arguments move with it
							}
							if ce, isC := m.(*ast.CallExpr); isC && ce != call && !ancestors[ce] {
								nm := calleeName(info, ce)
								if !(nm == "builtin.append" || nm == "builtin.len" || nm == "builtin.cap" || isConversion(info, ce)) {
									pure = false
								}
							}
							switch m.(type) {
							case *ast.FuncLit, *ast.UnaryExpr:
								if ue, isU := m.(*ast.UnaryExpr); isU && ue.Op != token.ARROW {
									return true
								}
								pure = false
							}
							return true
						})
						if as, isAs := host.(*ast.AssignStmt); isAs && as.Tok != token.ASSIGN && as.Tok != token.DEFINE {
							pure = false
						}
						if pure {
							kind = "hoist"
						}
					}
				}
				if kind == "" {
					return true
				}
				if kind == "hoist" || kind == "ifinit" || kind == "dropresult" {
					sites = append(sites, inlineSite{file: fname, callOff: c.Fset.Position(call.Pos()).Offset, kind: kind, helper: h})
					return true
				}
				if anyBind && kind == "go" && recvExpr != nil {
					return true
				}
				// names must mean the same at the call site
				var scope *types.Scope
				if s := p.Types.Scope().Innermost(call.Pos()); s != nil {
					scope = s
				}
				if !freeNamesAgree(info, p.Types, helperBody[target], helperInner[target], call.Pos(), scope) {
					return true
				}
				if kind == "tailassign" {
					okTypes := true
					if rt := helperResults[target]; rt != nil {
						for _, f := range rt.List {
							ast.Inspect(f.Type, func(m ast.Node) bool {
								return checkFree(info, p.Types, m, helperInner[target], call.Pos(), scope, &okTypes)
							})
						}
					}
					if !okTypes {
						return true
					}
				}
				// argument names must not be captured by the helper's own declarations (block forms)
				clash := false
				declared := map[string]bool{}
				for o := range helperInner[target] {
					declared[o.Name()] = true
				}
				for _, a := range call.Args {
					if _, isLit := ast.Unparen(a).(*ast.FuncLit); isLit {
						continue
					}
					ast.Inspect(a, func(m ast.Node) bool {
						if id, ok := m.(*ast.Ident); ok && declared[id.Name] {
							if _, isParam := helperParamName(helperInner[target], id.Name, info, helperBody[target]); !isParam {
								clash = true
							}
						}
						return true
					})
				}
				if recvExpr != nil {
					ast.Inspect(recvExpr, func(m ast.Node) bool {
						if id, ok := m.(*ast.Ident); ok && declared[id.Name] {
							if _, isParam := helperParamName(helperInner[target], id.Name, info, helperBody[target]); !isParam {
								clash = true
							}
						}
						return true
					})
				}
				if clash {
					return true
				}
				conv := make([]bool, len(call.Args))
				for i, a := range call.Args {
					if tv, ok := info.Types[a]; ok && (tv.Value != nil || tv.IsNil()) {
						conv[i] = true
					}
				}
				sites = append(sites, inlineSite{file: fname, callOff: c.Fset.Position(call.Pos()).Offset, kind: kind, helper: h, conv: conv, bind: bind, recvAddr: recvAddr})
				return true
			})
		}
	}
	return sites
}

// helperParamName: is name only declared as a parameter/receiver of the helper (substituted away)?
func helperParamName(inner map[types.Object]bool, name string, info *types.Info, body *ast.BlockStmt) (types.Object, bool) {
	var found types.Object
	onlyParam := true
	for o := range inner {
		if o.Name() != name {
			continue
		}
		found = o
		if within(body, o.Pos()) {
			onlyParam = false // declared inside the body
		}
	}
	return found, found != nil && onlyParam
}

// ---------------------------------------------------------------- applying the plan

type parsedFile struct {
	fset  *token.FileSet
	file  *ast.File
	calls map[int]*ast.CallExpr
	funcs map[int]ast.Node // body "{" offset -> *ast.FuncDecl or *ast.FuncLit
	src   []byte
}

func parseFresh(path string) (*parsedFile, error) {
	src, err := os.ReadFile(path)
	if err != nil {
		return nil, err
	}
	fset := token.NewFileSet()
	f, err := parser.ParseFile(fset, path, src, parser.ParseComments)
	if err != nil {
		return nil, err
	}
	pf := &parsedFile{fset: fset, file: f, calls: map[int]*ast.CallExpr{}, funcs: map[int]ast.Node{}, src: src}
	ast.Inspect(f, func(n ast.Node) bool {
		switch t := n.(type) {
		case *ast.CallExpr:
			pf.calls[fset.Position(t.Pos()).Offset] = t
		case *ast.FuncDecl:
			if t.Body != nil {
				pf.funcs[fset.Position(t.Body.Lbrace).Offset] = t
			}
		case *ast.FuncLit:
			pf.funcs[fset.Position(t.Body.Lbrace).Offset] = t
		}
		return true
	})
	return pf, nil
}

var astObjType = reflect.TypeOf((*ast.Object)(nil))
var astScopeType = reflect.TypeOf((*ast.Scope)(nil))
var posType = reflect.TypeOf(token.NoPos)
var exprIface = reflect.TypeOf((*ast.Expr)(nil)).Elem()

// cloneAST deep-copies a syntax tree. subst may replace an identifier that
// sits in an expression position; rename may change an identifier's name.
// All positions of the copy are cleared.
func cloneAST(n interface{}, fset *token.FileSet, subst func(off int) ast.Expr, rename func(off int) string) interface{} {
	var cp func(v reflect.Value) reflect.Value
	cp = func(v reflect.Value) reflect.Value {
		switch v.Kind() {
		case reflect.Ptr:
			if v.IsNil() {
				return v
			}
			if v.Type() == astObjType || v.Type() == astScopeType {
				return reflect.Zero(v.Type())
			}
			out := reflect.New(v.Type().Elem())
			out.Elem().Set(cp(v.Elem()))
			if id, ok := v.Interface().(*ast.Ident); ok && rename != nil {
				if nn := rename(fset.Position(id.Pos()).Offset); nn != "" {
					out.Interface().(*ast.Ident).Name = nn
				}
			}
			return out
		case reflect.Interface:
			if v.IsNil() {
				return v
			}
			if id, ok := v.Interface().(*ast.Ident); ok && subst != nil && v.Type() == exprIface {
				if r := subst(fset.Position(id.Pos()).Offset); r != nil {
					return reflect.ValueOf(r).Convert(exprIface)
				}
			}
			inner := cp(v.Elem())
			out := reflect.New(v.Type()).Elem()
			out.Set(inner)
			return out
		case reflect.Struct:
			out := reflect.New(v.Type()).Elem()
			for i := 0; i < v.NumField(); i++ {
				f := v.Field(i)
				if f.Type() == posType {
					// cleared, except where validity carries meaning (f(x...), grouped declarations, alias declarations)
					switch v.Type().Field(i).Name {
					case "Ellipsis", "Lparen", "Rparen", "Assign":
						if f.Interface().(token.Pos).IsValid() {
							out.Field(i).Set(reflect.ValueOf(token.Pos(1)))
						}
					}
					continue
				}
				if out.Field(i).CanSet() {
					out.Field(i).Set(cp(f))
				}
			}
			return out
		case reflect.Slice:
			if v.IsNil() {
				return v
			}
			out := reflect.MakeSlice(v.Type(), v.Len(), v.Len())
			for i := 0; i < v.Len(); i++ {
				out.Index(i).Set(cp(v.Index(i)))
			}
			return out
		}
		return v
	}
	return cp(reflect.ValueOf(n)).Interface()
}

func paren(e ast.Expr) ast.Expr {
	switch e.(type) {
	case *ast.Ident, *ast.BasicLit, *ast.SelectorExpr, *ast.CallExpr, *ast.ParenExpr, *ast.FuncLit, *ast.IndexExpr, *ast.CompositeLit:
		return e
	}
	return &ast.ParenExpr{X: e}
}

var inlineCounter int

// expand rewrites one call site in the fresh ASTs. Returns false when the
// shape found in the fresh tree is not the planned one.
func expandSite(s inlineSite, files map[string]*parsedFile) bool {
	cf := files[s.file]
	hf := files[s.helper.file]
	if cf == nil || hf == nil {
		return false
	}
	call := cf.calls[s.callOff]
	hn := hf.funcs[s.helper.bodyLbrace]
	if call == nil || hn == nil {
		return false
	}
	var body *ast.BlockStmt
	switch t := hn.(type) {
	case *ast.FuncDecl:
		body = t.Body
	case *ast.FuncLit:
		body = t.Body
	}
	// arguments (cloned per use)
	var recvExpr ast.Expr
	if se, ok := ast.Unparen(call.Fun).(*ast.SelectorExpr); ok && !s.helper.isLit {
		if fd, isDecl := hn.(*ast.FuncDecl); isDecl && fd.Recv != nil {
			recvExpr = se.X
		}
	}
	args := call.Args
	var ptypes []ast.Expr
	var hft *ast.FuncType
	switch t := hn.(type) {
	case *ast.FuncDecl:
		hft = t.Type
	case *ast.FuncLit:
		hft = t.Type
	}
	if hft != nil && hft.Params != nil {
		for _, f := range hft.Params.List {
			for range f.Names {
				ptypes = append(ptypes, f.Type)
			}
		}
	}
	inlineCounter++
	suffix := fmt.Sprintf("_inl%d", inlineCounter)
	// arguments with effects are evaluated once, in order, into fresh locals in front of the expansion
	var bound []ast.Stmt
	tmpName := map[int]string{}
	var pnames []string
	if hft != nil && hft.Params != nil {
		for _, f := range hft.Params.List {
			for _, id := range f.Names {
				pnames = append(pnames, id.Name)
			}
		}
	}
	for i := range args {
		if i < len(s.bind) && s.bind[i] && i < len(pnames) {
			nm := pnames[i] + "_arg" + suffix
			tmpName[i] = nm
			bound = append(bound, &ast.AssignStmt{Lhs: []ast.Expr{ast.NewIdent(nm)}, Tok: token.DEFINE, Rhs: []ast.Expr{cloneAST(args[i], cf.fset, nil, nil).(ast.Expr)}})
			// keep the local used even when the helper ignores the parameter
			bound = append(bound, &ast.AssignStmt{Lhs: []ast.Expr{ast.NewIdent("_")}, Tok: token.ASSIGN, Rhs: []ast.Expr{ast.NewIdent(nm)}})
		}
	}
	subst := func(off int) ast.Expr {
		idx, ok := s.helper.paramUse[off]
		if !ok {
			return nil
		}
		if nm, isTmp := tmpName[idx]; isTmp {
			return ast.NewIdent(nm)
		}
		var a ast.Expr
		if idx == -1 {
			a = recvExpr
			if s.recvAddr && a != nil {
				a = &ast.UnaryExpr{Op: token.AND, X: cloneAST(recvExpr, cf.fset, nil, nil).(ast.Expr)}
				return paren(a)
			}
		} else if idx < len(args) {
			a = args[idx]
		}
		if a == nil {
			return nil
		}
		c := cloneAST(a, cf.fset, nil, nil).(ast.Expr)
		if idx >= 0 && idx < len(s.conv) && s.conv[idx] && idx < len(ptypes) {
			pt := cloneAST(ptypes[idx], hf.fset, nil, nil).(ast.Expr)
			return &ast.CallExpr{Fun: &ast.ParenExpr{X: pt}, Args: []ast.Expr{c}}
		}
		// (&x).f reads better (and is what rules look for) as x.f; leave to the printer otherwise
		return paren(c)
	}
	renameLocals := func(off int) string {
		if nm, ok := s.helper.localUse[off]; ok && nm != "_" {
			return nm + suffix
		}
		return ""
	}
	simplifyAddr := func(n ast.Node) {
		// (&x).sel -> x.sel ; (&x).M() likewise
		ast.Inspect(n, func(m ast.Node) bool {
			if se, ok := m.(*ast.SelectorExpr); ok {
				if pe, ok := se.X.(*ast.ParenExpr); ok {
					if ue, ok := pe.X.(*ast.UnaryExpr); ok && ue.Op == token.AND {
						se.X = ue.X
					}
				}
			}
			return true
		})
	}
	replaceStmt := func(old ast.Stmt, repl []ast.Stmt) bool {
		if len(bound) > 0 {
			repl = append(append([]ast.Stmt{}, bound...), repl...)
		}
		done := false
		ast.Inspect(cf.file, func(n ast.Node) bool {
			if done {
				return false
			}
			var list *[]ast.Stmt
			switch t := n.(type) {
			case *ast.BlockStmt:
				list = &t.List
			case *ast.CaseClause:
				list = &t.Body
			case *ast.CommClause:
				list = &t.Body
			}
			if list != nil {
				for i, st := range *list {
					if st == old {
						nl := append([]ast.Stmt{}, (*list)[:i]...)
						nl = append(nl, repl...)
						nl = append(nl, (*list)[i+1:]...)
						*list = nl
						done = true
						return false
					}
				}
			}
			return true
		})
		return done
	}
	findStmtOf := func() ast.Stmt {
		var out ast.Stmt
		ast.Inspect(cf.file, func(n ast.Node) bool {
			switch t := n.(type) {
			case *ast.ExprStmt:
				if t.X == ast.Expr(call) {
					out = t
				}
			case *ast.GoStmt:
				if t.Call == call {
					out = t
				}
			case *ast.AssignStmt:
				if len(t.Rhs) == 1 && t.Rhs[0] == ast.Expr(call) {
					out = t
				}
			case *ast.ReturnStmt:
				if len(t.Results) == 1 && t.Results[0] == ast.Expr(call) {
					out = t
				}
			}
			return out == nil
		})
		return out
	}
	if s.helper.isLit {
		keepClosureVarUsed(hf, hn)
	}
	switch s.kind {
	case "dropresult":
		var target *ast.ExprStmt
		ast.Inspect(cf.file, func(n ast.Node) bool {
			if es, ok := n.(*ast.ExprStmt); ok && es.X == ast.Expr(call) {
				target = es
			}
			return target == nil
		})
		if target == nil || s.helper.results == 0 {
			return false
		}
		as := &ast.AssignStmt{Tok: token.ASSIGN, Rhs: []ast.Expr{call}}
		for i := 0; i < s.helper.results; i++ {
			as.Lhs = append(as.Lhs, ast.NewIdent("_"))
		}
		return replaceStmt(target, []ast.Stmt{as})
	case "ifinit":
		var target *ast.IfStmt
		ast.Inspect(cf.file, func(n ast.Node) bool {
			if is, ok := n.(*ast.IfStmt); ok && is.Init != nil {
				if as, ok := is.Init.(*ast.AssignStmt); ok && len(as.Rhs) == 1 && as.Rhs[0] == ast.Expr(call) {
					target = is
				}
			}
			return target == nil
		})
		if target == nil {
			return false
		}
		init := target.Init
		target.Init = nil
		blk := &ast.BlockStmt{List: []ast.Stmt{init, nil}}
		cp := *target
		blk.List[1] = &cp
		return replaceStmt(target, []ast.Stmt{blk})
	case "hoist":
		// innermost statement of a statement list that contains the call
		var host ast.Stmt
		ast.Inspect(cf.file, func(n ast.Node) bool {
			var list []ast.Stmt
			switch t := n.(type) {
			case *ast.BlockStmt:
				list = t.List
			case *ast.CaseClause:
				list = t.Body
			case *ast.CommClause:
				list = t.Body
			}
			for _, st := range list {
				if st.Pos() <= call.Pos() && call.End() <= st.End() {
					host = st
				}
			}
			return true
		})
		if host == nil {
			return false
		}
		switch host.(type) {
		case *ast.ExprStmt, *ast.AssignStmt, *ast.ReturnStmt:
		default:
			return false
		}
		tmp := ast.NewIdent("hoisted" + suffix)
		var found bool
		var rewrite func(v reflect.Value)
		rewrite = func(v reflect.Value) {
			if found {
				return
			}
			switch v.Kind() {
			case reflect.Ptr:
				if v.IsNil() || v.Type() == astObjType || v.Type() == astScopeType {
					return
				}
				rewrite(v.Elem())
			case reflect.Interface:
				if v.IsNil() {
					return
				}
				if v.Type() == exprIface && v.Interface() == ast.Expr(call) && v.CanSet() {
					v.Set(reflect.ValueOf(tmp).Convert(exprIface))
					found = true
					return
				}
				rewrite(v.Elem())
			case reflect.Struct:
				for i := 0; i < v.NumField(); i++ {
					rewrite(v.Field(i))
				}
			case reflect.Slice:
				for i := 0; i < v.Len(); i++ {
					rewrite(v.Index(i))
				}
			}
		}
		rewrite(reflect.ValueOf(host))
		if !found {
			return false
		}
		bound = nil
		return replaceStmt(host, []ast.Stmt{&ast.AssignStmt{Lhs: []ast.Expr{tmp}, Tok: token.DEFINE, Rhs: []ast.Expr{call}}, host})
	case "stmt":
		st := findStmtOf()
		if _, ok := st.(*ast.ExprStmt); !ok {
			return false
		}
		nb := cloneAST(body, hf.fset, subst, nil).(*ast.BlockStmt)
		if n := len(nb.List); n > 0 {
			if rs, ok := nb.List[n-1].(*ast.ReturnStmt); ok && len(rs.Results) == 0 {
				nb.List = nb.List[:n-1]
			}
		}
		simplifyAddr(nb)
		betaReduce(nb)
		return replaceStmt(st, []ast.Stmt{nb})
	case "stmtloop":
		st := findStmtOf()
		if _, ok := st.(*ast.ExprStmt); !ok {
			return false
		}
		nb := cloneAST(body, hf.fset, subst, renameLocals).(*ast.BlockStmt)
		simplifyAddr(nb)
		label := "inl" + suffix
		replaceOwnReturns(nb, func(rs *ast.ReturnStmt) ast.Stmt {
			return &ast.BranchStmt{Tok: token.BREAK, Label: ast.NewIdent(label)}
		})
		nb.List = append(nb.List, &ast.BranchStmt{Tok: token.BREAK, Label: ast.NewIdent(label)})
		loop := &ast.LabeledStmt{Label: ast.NewIdent(label), Stmt: &ast.ForStmt{Body: nb}}
		return replaceStmt(st, []ast.Stmt{loop})
	case "go":
		st := findStmtOf()
		gs, ok := st.(*ast.GoStmt)
		if !ok {
			return false
		}
		nb := cloneAST(body, hf.fset, subst, nil).(*ast.BlockStmt)
		simplifyAddr(nb)
		betaReduce(nb)
		gs.Call = &ast.CallExpr{Fun: &ast.FuncLit{Type: &ast.FuncType{Params: &ast.FieldList{}}, Body: nb}}
		if len(bound) > 0 {
			return replaceStmt(gs, []ast.Stmt{gs})
		}
		return true
	case "value":
		st := findStmtOf()
		if st == nil {
			return false
		}
		nb := cloneAST(body, hf.fset, subst, renameLocals).(*ast.BlockStmt)
		n := len(nb.List)
		if n == 0 {
			return false
		}
		rs, ok := nb.List[n-1].(*ast.ReturnStmt)
		if !ok {
			return false
		}
		simplifyAddr(nb)
		pre := nb.List[:n-1]
		switch t := st.(type) {
		case *ast.AssignStmt:
			if len(rs.Results) != len(t.Lhs) {
				return false
			}
			t.Rhs = rs.Results
		case *ast.ReturnStmt:
			t.Results = rs.Results
		default:
			return false
		}
		return replaceStmt(st, append(append([]ast.Stmt{}, pre...), st))
	case "retsplice":
		st := findStmtOf()
		if _, ok := st.(*ast.ReturnStmt); !ok {
			return false
		}
		nb := cloneAST(body, hf.fset, subst, renameLocals).(*ast.BlockStmt)
		simplifyAddr(nb)
		return replaceStmt(st, nb.List)
	case "tailassign":
		st := findStmtOf()
		as, ok := st.(*ast.AssignStmt)
		if !ok {
			return false
		}
		nb := cloneAST(body, hf.fset, subst, renameLocals).(*ast.BlockStmt)
		simplifyAddr(nb)
		var lhsNames []string
		blank := map[int]bool{}
		for i, l := range as.Lhs {
			nm := l.(*ast.Ident).Name
			if nm == "_" {
				nm = fmt.Sprintf("blank%s_%d", suffix, i)
				blank[i] = true
			}
			lhsNames = append(lhsNames, nm)
		}
		conv, ok := tailAssign(nb.List, lhsNames)
		left := false
		if ok {
			for _, cs := range conv {
				inspectNoLit(cs, func(x ast.Node) bool {
					if _, isRet := x.(*ast.ReturnStmt); isRet {
						left = true
					}
					return true
				})
			}
		}
		if !ok || left {
			// returns in nested positions (inside loops, switches): run the body inside a labelled one-pass
			// loop; `return e..` becomes `lhs.. = e..; break label`
			nb = cloneAST(body, hf.fset, subst, renameLocals).(*ast.BlockStmt)
			simplifyAddr(nb)
			label := "inl" + suffix
			bad := false
			replaceOwnReturns(nb, func(rs *ast.ReturnStmt) ast.Stmt {
				if len(rs.Results) != len(lhsNames) {
					bad = true
					return rs
				}
				var lhs []ast.Expr
				for _, nm := range lhsNames {
					lhs = append(lhs, ast.NewIdent(nm))
				}
				return &ast.BlockStmt{List: []ast.Stmt{
					&ast.AssignStmt{Lhs: lhs, Tok: token.ASSIGN, Rhs: rs.Results},
					&ast.BranchStmt{Tok: token.BREAK, Label: ast.NewIdent(label)},
				}}
			})
			if bad {
				return false
			}
			conv = []ast.Stmt{&ast.LabeledStmt{Label: ast.NewIdent(label), Stmt: &ast.ForStmt{Body: nb}}}
		}
		var pre []ast.Stmt
		if as.Tok == token.DEFINE || len(blank) > 0 {
			var rtypes []ast.Expr
			if hft != nil && hft.Results != nil {
				for _, f := range hft.Results.List {
					k := len(f.Names)
					if k == 0 {
						k = 1
					}
					for i := 0; i < k; i++ {
						rtypes = append(rtypes, f.Type)
					}
				}
			}
			if len(rtypes) != len(lhsNames) {
				return false
			}
			for i, nm := range lhsNames {
				if as.Tok != token.DEFINE && !blank[i] {
					continue
				}
				if blank[i] {
					conv = append(conv, &ast.AssignStmt{Lhs: []ast.Expr{ast.NewIdent("_")}, Tok: token.ASSIGN, Rhs: []ast.Expr{ast.NewIdent(nm)}})
				}
				pre = append(pre, &ast.DeclStmt{Decl: &ast.GenDecl{Tok: token.VAR, Specs: []ast.Spec{&ast.ValueSpec{Names: []*ast.Ident{ast.NewIdent(nm)}, Type: cloneAST(rtypes[i], hf.fset, nil, nil).(ast.Expr)}}}})
			}
		}
		return replaceStmt(st, append(pre, conv...))
	case "expr":
		if len(body.List) != 1 {
			return false
		}
		rs, ok := body.List[0].(*ast.ReturnStmt)
		if !ok || len(rs.Results) != 1 {
			return false
		}
		ne := cloneAST(rs.Results[0], hf.fset, subst, nil).(ast.Expr)
		simplifyAddr(ne)
		repl := &ast.ParenExpr{X: ne}
		// replace the call expression wherever it sits
		done := false
		var rewrite func(v reflect.Value)
		rewrite = func(v reflect.Value) {
			if done {
				return
			}
			switch v.Kind() {
			case reflect.Ptr:
				if v.IsNil() || v.Type() == astObjType || v.Type() == astScopeType {
					return
				}
				rewrite(v.Elem())
			case reflect.Interface:
				if v.IsNil() {
					return
				}
				if v.Type() == exprIface && v.Interface() == ast.Expr(call) && v.CanSet() {
					v.Set(reflect.ValueOf(repl).Convert(exprIface))
					done = true
					return
				}
				rewrite(v.Elem())
			case reflect.Struct:
				for i := 0; i < v.NumField(); i++ {
					rewrite(v.Field(i))
				}
			case reflect.Slice:
				for i := 0; i < v.Len(); i++ {
					rewrite(v.Index(i))
				}
			}
		}
		rewrite(reflect.ValueOf(cf.file))
		return done
	}
	return false
}

// replaceOwnReturns replaces every return statement of the block itself
// (not those of nested function literals) by what mk gives for it.
func replaceOwnReturns(b *ast.BlockStmt, mk func(*ast.ReturnStmt) ast.Stmt) {
	var lists func(n ast.Node)
	fix := func(list []ast.Stmt) {
		for i, st := range list {
			if rs, ok := st.(*ast.ReturnStmt); ok {
				list[i] = mk(rs)
			}
		}
	}
	lists = func(n ast.Node) {
		ast.Inspect(n, func(x ast.Node) bool {
			switch t := x.(type) {
			case *ast.FuncLit:
				return false
			case *ast.BlockStmt:
				fix(t.List)
			case *ast.CaseClause:
				fix(t.Body)
			case *ast.CommClause:
				fix(t.Body)
			case *ast.LabeledStmt:
				if rs, ok := t.Stmt.(*ast.ReturnStmt); ok {
					t.Stmt = mk(rs)
				}
			}
			return true
		})
	}
	lists(b)
}

// buildInlinedOverlay produces the normalised sources (file -> content) and
// the number of call sites expanded. One round; callers may iterate.
func buildInlinedOverlay(c *Ctx, base map[string][]byte) (map[string][]byte, int, error) {
	sites := planInlining(c)
	if len(sites) == 0 {
		return base, 0, nil
	}
	// a call inside the body of a helper that is itself expanded this round waits for the next round:
	// the helper's body must still be the parsed original when it is copied
	used := map[*inlineHelper]bool{}
	for _, s := range sites {
		used[s.helper] = true
	}
	var now []inlineSite
	for _, s := range sites {
		nested := false
		for h := range used {
			if h.file == s.file && h.bodyLbrace < s.callOff && s.callOff < h.bodyEnd {
				nested = true
			}
		}
		if !nested {
			now = append(now, s)
		}
	}
	sites = now
	if len(sites) == 0 {
		return base, 0, nil
	}
	// innermost / later call sites first so that offsets of enclosing nodes stay valid objects
	sort.SliceStable(sites, func(i, j int) bool {
		if sites[i].file != sites[j].file {
			return sites[i].file < sites[j].file
		}
		return sites[i].callOff > sites[j].callOff
	})
	files := map[string]*parsedFile{}
	need := map[string]bool{}
	for _, s := range sites {
		need[s.file] = true
		need[s.helper.file] = true
	}
	for f := range need {
		var pf *parsedFile
		var err error
		if src, ok := base[f]; ok {
			fset := token.NewFileSet()
			af, perr := parser.ParseFile(fset, f, src, parser.ParseComments)
			if perr != nil {
				return nil, 0, perr
			}
			pf = &parsedFile{fset: fset, file: af, calls: map[int]*ast.CallExpr{}, funcs: map[int]ast.Node{}, src: src}
			ast.Inspect(af, func(n ast.Node) bool {
				switch t := n.(type) {
				case *ast.CallExpr:
					pf.calls[fset.Position(t.Pos()).Offset] = t
				case *ast.FuncDecl:
					if t.Body != nil {
						pf.funcs[fset.Position(t.Body.Lbrace).Offset] = t
					}
				case *ast.FuncLit:
					pf.funcs[fset.Position(t.Body.Lbrace).Offset] = t
				}
				return true
			})
		} else {
			pf, err = parseFresh(f)
			if err != nil {
				return nil, 0, err
			}
		}
		files[f] = pf
	}
	n := 0
	changed := map[string]bool{}
	for _, s := range sites {
		// a call nested inside a helper body that is itself expanded elsewhere is handled in the next round
		if expandSite(s, files) {
			n++
			changed[s.file] = true
			if !s.helper.isLit && s.kind != "hoist" && s.kind != "ifinit" && s.kind != "dropresult" {
				expandedHelpers[s.helper.file+"|"+s.helper.name] = true
			}
		}
	}
	out := map[string][]byte{}
	for f, src := range base {
		out[f] = src
	}
	for f := range changed {
		pf := files[f]
		// keep only the comments before the package clause (build constraints)
		var keep []*ast.CommentGroup
		for _, cg := range pf.file.Comments {
			if cg.End() < pf.file.Package {
				keep = append(keep, cg)
			}
		}
		pf.file.Comments = keep
		ast.Inspect(pf.file, func(n ast.Node) bool {
			switch t := n.(type) {
			case *ast.FuncDecl:
				t.Doc = nil
			case *ast.GenDecl:
				t.Doc = nil
			case *ast.Field:
				t.Doc, t.Comment = nil, nil
			case *ast.ValueSpec:
				t.Doc, t.Comment = nil, nil
			case *ast.TypeSpec:
				t.Doc, t.Comment = nil, nil
			case *ast.ImportSpec:
				t.Doc, t.Comment = nil, nil
			}
			return true
		})
		var buf bytes.Buffer
		if err := (&printer.Config{Mode: printer.UseSpaces | printer.TabIndent, Tabwidth: 8}).Fprint(&buf, pf.fset, pf.file); err != nil {
			return nil, 0, err
		}
		out[f] = buf.Bytes()
	}
	return out, n, nil
}

// LoadNormalised loads the repository with private helpers expanded (up to
// three rounds, so helpers of helpers are expanded too). Returns nil when
// nothing was expanded or the expanded program does not type-check.
// expandedHelpers: file|name of package-level helpers that had a call expanded during this process.
var expandedHelpers = map[string]bool{}

// pruneDeadHelpers removes, from the overlay, the declarations of expanded
// plain functions (no receiver: a method may still be reached through an
// interface) that nothing refers to any more, together with imports that
// become unused. Returns the new overlay and the number of functions removed.
func pruneDeadHelpers(c *Ctx, overlay map[string][]byte) (map[string][]byte, int) {
	out := map[string][]byte{}
	for f, src := range overlay {
		out[f] = src
	}
	removed := 0
	for _, p := range c.Pkgs {
		if !c.IsRarePkg(p.Types) {
			continue
		}
		refs := map[types.Object]int{}
		for _, o := range p.TypesInfo.Uses {
			if f, ok := o.(*types.Func); ok {
				refs[f.Origin()]++
			}
		}
		for _, file := range p.Syntax {
			fname := c.Fset.Position(file.Pos()).Filename
			src, inOverlay := out[fname]
			if !inOverlay {
				continue
			}
			type span struct{ a, b int }
			var cuts []span
			for _, d := range file.Decls {
				fd, ok := d.(*ast.FuncDecl)
				if !ok || fd.Recv != nil || fd.Body == nil || fd.Name.IsExported() || fd.Name.Name == "init" || fd.Name.Name == "main" {
					continue
				}
				if !expandedHelpers[fname+"|"+fd.Name.Name] {
					continue
				}
				obj, _ := p.TypesInfo.Defs[fd.Name].(*types.Func)
				if obj == nil || refs[obj] > 0 {
					continue
				}
				a := c.Fset.Position(fd.Pos()).Offset
				if fd.Doc != nil {
					a = c.Fset.Position(fd.Doc.Pos()).Offset
				}
				cuts = append(cuts, span{a, c.Fset.Position(fd.End()).Offset})
			}
			if len(cuts) == 0 {
				continue
			}
			sort.Slice(cuts, func(i, j int) bool { return cuts[i].a > cuts[j].a })
			ns := append([]byte{}, src...)
			for _, ct := range cuts {
				if ct.b > len(ns) || ct.a > ct.b {
					continue
				}
				ns = append(append([]byte{}, ns[:ct.a]...), ns[ct.b:]...)
				removed++
			}
			out[fname] = ns
		}
	}
	return out, removed
}

var unusedImportRe = regexp.MustCompile(`([^\s;]+\.go):(\d+):\d+: "([^"]+)" imported( as \S+)? and not used`)

// dropUnusedImports removes, from overlay files, the imports the type checker
// reported as unused (after dead helpers were cut). Reports whether anything changed.
func dropUnusedImports(overlay map[string][]byte, msg string) bool {
	changed := false
	for _, m := range unusedImportRe.FindAllStringSubmatch(msg, -1) {
		fname, path := m[1], m[3]
		src, ok := overlay[fname]
		if !ok {
			continue
		}
		fset := token.NewFileSet()
		af, err := parser.ParseFile(fset, fname, src, parser.ParseComments)
		if err != nil {
			continue
		}
		done := false
		for _, imp := range af.Imports {
			if strings.Trim(imp.Path.Value, "\"") != path {
				continue
			}
			if imp.Name != nil {
				done = astutil.DeleteNamedImport(fset, af, imp.Name.Name, path)
			} else {
				done = astutil.DeleteImport(fset, af, path)
			}
			break
		}
		if !done {
			continue
		}
		var buf bytes.Buffer
		if err := (&printer.Config{Mode: printer.UseSpaces | printer.TabIndent, Tabwidth: 8}).Fprint(&buf, fset, af); err == nil {
			overlay[fname] = buf.Bytes()
			changed = true
		}
	}
	return changed
}

func LoadNormalised(c *Ctx) (*Ctx, int, error) {
	overlay := map[string][]byte{}
	for f, src := range c.Overlay {
		overlay[f] = src // the un-renamed text, if any, is what gets expanded
	}
	cur := c
	total := 0
	// pre-pass: new private helpers with named results get unnamed ones (denamed.go)
	if dn, nd := denameResults(c, overlay); nd > 0 {
		if nc, err := LoadOverlay(c.Repo, c.Config, dn); err == nil {
			cur, overlay = nc, dn
		} else if os.Getenv("RARECHECK_DEBUG") != "" {
			fmt.Fprintln(os.Stderr, "de-named view does not load:", err)
		}
	}
	for round := 0; round < 4; round++ {
		next, n, err := buildInlinedOverlay(cur, overlay)
		if err != nil {
			return nil, total, err
		}
		if n == 0 {
			break
		}
		total += n
		prev := overlay
		overlay = next
		if d := os.Getenv("RARECHECK_DUMP_INLINED"); d != "" {
			for f, src := range overlay {
				if strings.Contains(f, d) {
					fmt.Fprintf(os.Stderr, "==== round %d %s\n%s\n", round, f, src)
				}
			}
		}
		nc, err := LoadOverlay(c.Repo, c.Config, overlay)
		if err != nil {
			// give up the files that do not type-check after expansion (keep their previous text) and retry once
			dropped := 0
			for f := range overlay {
				if strings.Contains(err.Error(), f+":") {
					if old, had := prev[f]; had {
						overlay[f] = old
					} else {
						delete(overlay, f)
					}
					dropped++
				}
			}
			if dropped == 0 {
				return nil, total, fmt.Errorf("normalised program does not load: %v", err)
			}
			nc, err = LoadOverlay(c.Repo, c.Config, overlay)
			if err != nil {
				return nil, total, fmt.Errorf("normalised program does not load: %v", err)
			}
		}
		cur = nc
	}
	if total == 0 {
		return nil, 0, nil
	}
	// helpers whose every call was expanded are dead code in this view: drop them, so that rules which
	// enumerate constructs (panic sites, parse calls ..) see each construct once, where it now executes
	if pruned, np := pruneDeadHelpers(cur, overlay); np > 0 {
		var nc *Ctx
		var err error
		for try := 0; try < 4; try++ {
			nc, err = LoadOverlay(c.Repo, c.Config, pruned)
			if err == nil || !dropUnusedImports(pruned, err.Error()) {
				break
			}
		}
		if err == nil {
			cur, overlay = nc, pruned
		} else if os.Getenv("RARECHECK_DEBUG") != "" {
			fmt.Fprintln(os.Stderr, "pruned view does not load:", err)
		}
	} else if os.Getenv("RARECHECK_DEBUG") != "" {
		fmt.Fprintln(os.Stderr, "nothing pruned; expanded helpers:", len(expandedHelpers))
	}
	if os.Getenv("RARECHECK_DUMP_INLINED") != "" {
		for f, src := range overlay {
			if strings.Contains(f, os.Getenv("RARECHECK_DUMP_INLINED")) {
				fmt.Fprintf(os.Stderr, "==== %s\n%s\n", f, src)
			}
		}
	}
	return cur, total, nil
}

// betaReduce replaces statements `func() { body }()` (a literal without
// parameters, results or return statements, called on the spot) by `{ body }`.
func betaReduce(n ast.Node) {
	ast.Inspect(n, func(m ast.Node) bool {
		var list *[]ast.Stmt
		switch t := m.(type) {
		case *ast.BlockStmt:
			list = &t.List
		case *ast.CaseClause:
			list = &t.Body
		case *ast.CommClause:
			list = &t.Body
		}
		if list == nil {
			return true
		}
		for i, st := range *list {
			es, ok := st.(*ast.ExprStmt)
			if !ok {
				continue
			}
			ce, ok := es.X.(*ast.CallExpr)
			if !ok || len(ce.Args) != 0 {
				continue
			}
			fun := ce.Fun
			if pe, ok := fun.(*ast.ParenExpr); ok {
				fun = pe.X
			}
			fl, ok := fun.(*ast.FuncLit)
			if !ok || (fl.Type.Params != nil && len(fl.Type.Params.List) > 0) || (fl.Type.Results != nil && len(fl.Type.Results.List) > 0) {
				continue
			}
			hasRet := false
			inspectNoLit(fl.Body, func(x ast.Node) bool {
				switch x.(type) {
				case *ast.ReturnStmt, *ast.DeferStmt:
					hasRet = true
				}
				return true
			})
			if hasRet {
				continue
			}
			(*list)[i] = fl.Body
		}
		return true
	})
}

var closureKept = map[ast.Node]bool{}

// keepClosureVarUsed inserts `_ = v` after `v := func..` so that expanding
// every call of v does not leave an unused variable behind.
func keepClosureVarUsed(pf *parsedFile, lit ast.Node) {
	if closureKept[lit] {
		return
	}
	closureKept[lit] = true
	ast.Inspect(pf.file, func(n ast.Node) bool {
		var list *[]ast.Stmt
		switch t := n.(type) {
		case *ast.BlockStmt:
			list = &t.List
		case *ast.CaseClause:
			list = &t.Body
		case *ast.CommClause:
			list = &t.Body
		}
		if list == nil {
			return true
		}
		for i, st := range *list {
			as, ok := st.(*ast.AssignStmt)
			if !ok || len(as.Lhs) != 1 || len(as.Rhs) != 1 {
				continue
			}
			if ast.Node(as.Rhs[0]) != lit {
				if pe, ok := as.Rhs[0].(*ast.ParenExpr); !ok || ast.Node(pe.X) != lit {
					continue
				}
			}
			id, ok := as.Lhs[0].(*ast.Ident)
			if !ok {
				continue
			}
			keep := &ast.AssignStmt{Lhs: []ast.Expr{ast.NewIdent("_")}, Tok: token.ASSIGN, Rhs: []ast.Expr{ast.NewIdent(id.Name)}}
			nl := append([]ast.Stmt{}, (*list)[:i+1]...)
			nl = append(nl, keep)
			nl = append(nl, (*list)[i+1:]...)
			*list = nl
			return false
		}
		return true
	})
}

// tailAssign rewrites a statement list whose every path ends in `return e..`
// into one that assigns e.. to the given names instead. `if c { ..; return a }`
// followed by more statements is treated as if/else.
func tailAssign(list []ast.Stmt, lhs []string) ([]ast.Stmt, bool) {
	if len(list) == 0 {
		return nil, false
	}
	mkAssign := func(rs *ast.ReturnStmt) (ast.Stmt, bool) {
		if len(rs.Results) != len(lhs) {
			return nil, false
		}
		var l []ast.Expr
		for _, nm := range lhs {
			l = append(l, ast.NewIdent(nm))
		}
		return &ast.AssignStmt{Lhs: l, Tok: token.ASSIGN, Rhs: rs.Results}, true
	}
	endsInReturn := func(b *ast.BlockStmt) bool {
		if b == nil || len(b.List) == 0 {
			return false
		}
		_, ok := b.List[len(b.List)-1].(*ast.ReturnStmt)
		return ok
	}
	for i, st := range list[:len(list)-1] {
		is, ok := st.(*ast.IfStmt)
		if !ok || is.Else != nil || !endsInReturn(is.Body) {
			continue
		}
		body, ok1 := tailAssign(is.Body.List, lhs)
		rest, ok2 := tailAssign(list[i+1:], lhs)
		if !ok1 || !ok2 {
			return nil, false
		}
		nif := &ast.IfStmt{Init: is.Init, Cond: is.Cond, Body: &ast.BlockStmt{List: body}, Else: &ast.BlockStmt{List: rest}}
		return append(append([]ast.Stmt{}, list[:i]...), nif), true
	}
	n := len(list)
	switch t := list[n-1].(type) {
	case *ast.ReturnStmt:
		a, ok := mkAssign(t)
		if !ok {
			return nil, false
		}
		return append(append([]ast.Stmt{}, list[:n-1]...), a), true
	case *ast.BlockStmt:
		inner, ok := tailAssign(t.List, lhs)
		if !ok {
			return nil, false
		}
		return append(append([]ast.Stmt{}, list[:n-1]...), &ast.BlockStmt{List: inner}), true
	case *ast.IfStmt:
		if t.Else == nil {
			return nil, false
		}
		body, ok := tailAssign(t.Body.List, lhs)
		if !ok {
			return nil, false
		}
		var els ast.Stmt
		switch e := t.Else.(type) {
		case *ast.BlockStmt:
			inner, ok := tailAssign(e.List, lhs)
			if !ok {
				return nil, false
			}
			els = &ast.BlockStmt{List: inner}
		case *ast.IfStmt:
			inner, ok := tailAssign([]ast.Stmt{e}, lhs)
			if !ok || len(inner) != 1 {
				return nil, false
			}
			els = inner[0]
		default:
			return nil, false
		}
		nif := &ast.IfStmt{Init: t.Init, Cond: t.Cond, Body: &ast.BlockStmt{List: body}, Else: els}
		return append(append([]ast.Stmt{}, list[:n-1]...), nif), true
	case *ast.SwitchStmt:
		hasDefault := false
		nb := &ast.BlockStmt{}
		for _, cl := range t.Body.List {
			cc, ok := cl.(*ast.CaseClause)
			if !ok {
				return nil, false
			}
			if cc.List == nil {
				hasDefault = true
			}
			inner, ok := tailAssign(cc.Body, lhs)
			if !ok {
				return nil, false
			}
			nb.List = append(nb.List, &ast.CaseClause{List: cc.List, Body: inner})
		}
		if !hasDefault {
			return nil, false
		}
		return append(append([]ast.Stmt{}, list[:n-1]...), &ast.SwitchStmt{Init: t.Init, Tag: t.Tag, Body: nb}), true
	}
	return nil, false
}
