package main

// Core of rarecheck: loading the resolved program, the obligation/report model,
// the known-findings file, and evidence writing.

import (
	_ "embed"
	"encoding/json"
	"fmt"
	"go/ast"
	"go/constant"
	"go/token"
	"go/types"
	"os"
	"path/filepath"
	"regexp"
	"sort"
	"strings"
	"time"

	"golang.org/x/tools/go/callgraph"
	"golang.org/x/tools/go/callgraph/cha"
	"golang.org/x/tools/go/callgraph/vta"
	"golang.org/x/tools/go/packages"
	"golang.org/x/tools/go/ssa"
	"golang.org/x/tools/go/ssa/ssautil"
)

// BuildConfig names one build configuration of /repo.
type BuildConfig struct {
	GOOS, GOARCH string
}

func (b BuildConfig) String() string { return b.GOOS + "/" + b.GOARCH }

// Ctx is one loaded, type-checked configuration of the repository.
type Ctx struct {
	Repo        string
	Config      BuildConfig
	Fset        *token.FileSet
	Pkgs        []*packages.Package // rare/... packages only
	ByPath      map[string]*packages.Package
	Prog        *ssa.Program
	SSAPkg      map[string]*ssa.Package
	cg          *callgraph.Graph
	allFns      map[*ssa.Function]bool
	NFuncs      int
	LoadDur     time.Duration
	Overlay     map[string][]byte // non-nil for the normalised view: file -> replaced content
	RenameNotes []string          // renames that were undone before analysis (unrename.go)
}

func goEnv(extra ...string) []string {
	env := []string{}
	for _, e := range os.Environ() {
		k := strings.SplitN(e, "=", 2)[0]
		switch k {
		case "GOFLAGS", "GOPROXY", "GOSUMDB", "GOWORK", "GOOS", "GOARCH", "GOTOOLCHAIN", "CGO_ENABLED":
			continue
		}
		env = append(env, e)
	}
	env = append(env, "GOFLAGS=-mod=mod", "GOPROXY=off", "GOSUMDB=off", "GOWORK=off", "GOTOOLCHAIN=local")
	env = append(env, extra...)
	return env
}

// Load type-checks every package of the module at repo for the given build
// configuration and builds SSA for the module's own packages.
func Load(repo string, bc BuildConfig) (*Ctx, error) {
	c, err := LoadOverlay(repo, bc, nil)
	if err != nil {
		return nil, err
	}
	nc, notes := unrenamed(c)
	nc.RenameNotes = notes
	return nc, nil
}

// LoadOverlay is Load with some files replaced by the given contents.
func LoadOverlay(repo string, bc BuildConfig, overlay map[string][]byte) (*Ctx, error) {
	t0 := time.Now()
	fset := token.NewFileSet()
	env := goEnv("GOOS="+bc.GOOS, "GOARCH="+bc.GOARCH, "CGO_ENABLED=0")
	cfg := &packages.Config{
		Mode:  packages.LoadAllSyntax,
		Dir:   repo,
		Fset:  fset,
		Env:   env,
		Tests: false,
	}
	if len(overlay) > 0 {
		cfg.Overlay = overlay
	}
	pkgs, err := packages.Load(cfg, "./...")
	if err != nil {
		return nil, fmt.Errorf("load: %v", err)
	}
	if len(pkgs) == 0 {
		return nil, fmt.Errorf("load: zero packages matched in %s", repo)
	}
	var errs []string
	packages.Visit(pkgs, nil, func(p *packages.Package) {
		for _, e := range p.Errors {
			errs = append(errs, e.Error())
		}
	})
	if len(errs) > 0 {
		if len(errs) > 8 {
			errs = errs[:8]
		}
		return nil, fmt.Errorf("type-check/load errors (%s): %s", bc, strings.Join(errs, "; "))
	}
	c := &Ctx{Repo: repo, Config: bc, Fset: fset, ByPath: map[string]*packages.Package{}, SSAPkg: map[string]*ssa.Package{}, Overlay: overlay}
	for _, p := range pkgs {
		c.Pkgs = append(c.Pkgs, p)
		c.ByPath[p.PkgPath] = p
	}
	sort.Slice(c.Pkgs, func(i, j int) bool { return c.Pkgs[i].PkgPath < c.Pkgs[j].PkgPath })
	prog, spkgs := ssautil.Packages(pkgs, ssa.BuilderMode(0))
	prog.Build()
	c.Prog = prog
	for i, sp := range spkgs {
		if sp == nil {
			return nil, fmt.Errorf("no SSA package for %s", pkgs[i].PkgPath)
		}
		c.SSAPkg[pkgs[i].PkgPath] = sp
	}
	c.allFns = ssautil.AllFunctions(prog)
	for f := range c.allFns {
		if f.Pkg != nil && c.IsRarePkg(f.Pkg.Pkg) && f.Blocks != nil {
			c.NFuncs++
		} else if f.Pkg == nil && f.Origin() != nil && f.Origin().Pkg != nil && c.IsRarePkg(f.Origin().Pkg.Pkg) {
			c.NFuncs++
		}
	}
	resolveRenames(c)
	computeImmutableFields(c)
	computeFieldLenInvariants(c)
	curCtx = c
	writesNothingCache = map[*types.Func]int{}
	fieldsWrittenCache = map[*types.Func]*fieldWrites{}
	c.LoadDur = time.Since(t0)
	return c, nil
}

func (c *Ctx) IsRarePkg(p *types.Package) bool {
	if p == nil {
		return false
	}
	return p.Path() == "rare" || strings.HasPrefix(p.Path(), "rare/")
}

// CallGraph returns the VTA call graph (built on first use).
func (c *Ctx) CallGraph() *callgraph.Graph {
	if c.cg == nil {
		c.cg = vta.CallGraph(c.allFns, cha.CallGraph(c.Prog))
	}
	return c.cg
}

// Pos renders a position relative to the repository root.
func (c *Ctx) Pos(p token.Pos) string {
	if !p.IsValid() {
		return "-"
	}
	pp := c.Fset.Position(p)
	rel, err := filepath.Rel(c.Repo, pp.Filename)
	if err != nil {
		rel = pp.Filename
	}
	return fmt.Sprintf("%s:%d:%d", rel, pp.Line, pp.Column)
}

// ---------------------------------------------------------------- report

type Ob struct {
	Rule   string `json:"rule"`
	Key    string `json:"key"`
	Pos    string `json:"pos"`
	Status string `json:"status"` // discharged | violation | undecided | known-finding
	By     string `json:"by,omitempty"`
	Detail string `json:"detail,omitempty"`
	Config string `json:"config,omitempty"`
}

type Report struct {
	Prop     string
	Tier     string
	Obs      []Ob
	floors   map[string]int
	floorWhy map[string]string
	seen     map[string]int
	Notes    []string
	Explain  string
	Assume   []string
	Extra    map[string]interface{}
	curCfg   string
}

func NewReport(prop, tier string) *Report {
	return &Report{Prop: prop, Tier: tier, floors: map[string]int{}, floorWhy: map[string]string{}, seen: map[string]int{}, Extra: map[string]interface{}{}}
}

func (r *Report) add(o Ob) {
	o.Config = r.curCfg
	r.Obs = append(r.Obs, o)
}

// mkKey builds a line-independent obligation key and disambiguates repeated
// constructs within one function by ordinal.
var inlSuffix = regexp.MustCompile(`(_arg)?_inl[0-9]+`)

func (r *Report) mkKey(rule, where, construct string) string {
	// names the expander made unique (x_inl3) answer to their original spelling
	construct = inlSuffix.ReplaceAllString(construct, "")
	k := rule + "|" + where + "|" + construct
	id := r.curCfg + "\x00" + k
	r.seen[id]++
	if n := r.seen[id]; n > 1 {
		k = fmt.Sprintf("%s#%d", k, n)
	}
	return k
}

func (r *Report) OK(rule, where, construct, pos, by string) {
	r.add(Ob{Rule: rule, Key: r.mkKey(rule, where, construct), Pos: pos, Status: "discharged", By: by})
}

func (r *Report) Bad(rule, where, construct, pos, detail string) {
	r.add(Ob{Rule: rule, Key: r.mkKey(rule, where, construct), Pos: pos, Status: "violation", Detail: detail})
}

func (r *Report) Undecided(rule, where, construct, pos, detail string) {
	r.add(Ob{Rule: rule, Key: r.mkKey(rule, where, construct), Pos: pos, Status: "undecided", Detail: detail})
}

// Check records OK when cond holds and a violation otherwise.
func (r *Report) Check(cond bool, rule, where, construct, pos, by, detail string) bool {
	if cond {
		r.OK(rule, where, construct, pos, by)
	} else {
		r.Bad(rule, where, construct, pos, detail)
	}
	return cond
}

// Floor declares the minimum number of instances a rule must have matched
// (vacuity guard, confirmed by hand on the pinned tree).
func (r *Report) Floor(rule string, n int, why string) {
	r.floors[rule] = n
	r.floorWhy[rule] = why
}

// ---------------------------------------------------------------- findings

type Finding struct {
	Kind string // finding | fixed
	Prop string
	Key  string
	Text string
}

func loadFindings(path string) ([]Finding, error) {
	data, err := os.ReadFile(path)
	if err != nil {
		if os.IsNotExist(err) {
			return nil, nil
		}
		return nil, err
	}
	var out []Finding
	for _, ln := range strings.Split(string(data), "\n") {
		ln = strings.TrimSpace(ln)
		if ln == "" || strings.HasPrefix(ln, "#") {
			continue
		}
		var f Finding
		switch {
		case strings.HasPrefix(ln, "finding:"):
			f.Kind = "finding"
			ln = strings.TrimSpace(strings.TrimPrefix(ln, "finding:"))
		case strings.HasPrefix(ln, "fixed:"):
			f.Kind = "fixed"
			ln = strings.TrimSpace(strings.TrimPrefix(ln, "fixed:"))
		default:
			return nil, fmt.Errorf("known_findings: bad line %q", ln)
		}
		fields := strings.Fields(ln)
		rest := []string{}
		for _, fl := range fields {
			if strings.HasPrefix(fl, "property=") && f.Prop == "" {
				f.Prop = strings.TrimPrefix(fl, "property=")
			} else if strings.HasPrefix(fl, "key=") && f.Key == "" && f.Kind == "finding" {
				f.Key = strings.TrimPrefix(fl, "key=")
			} else {
				rest = append(rest, fl)
			}
		}
		f.Text = strings.Join(rest, " ")
		if f.Kind == "finding" && (f.Prop == "" || f.Key == "") {
			return nil, fmt.Errorf("known_findings: finding without property/key: %q", ln)
		}
		out = append(out, f)
	}
	return out, nil
}

// keyForFile turns an obligation key into the whitespace-free form used in
// known_findings.txt.
func keyForFile(k string) string {
	return strings.Join(strings.Fields(k), "")
}

// ---------------------------------------------------------------- finish

type replayDoc struct {
	Property string `json:"property"`
	Tier     string `json:"tier"`
	Ob       Ob     `json:"obligation"`
	Note     string `json:"note"`
}

// Finish applies floors and known findings, writes evidence and replay files,
// prints the verdict lines and returns the process exit code.
func (r *Report) Finish(verifDir string, seed int64, t0 time.Time, c *Ctx, configs []string, writeEvidence bool) int {
	// floors
	counts := map[string]int{}
	for _, o := range r.Obs {
		if o.Config == "" || len(configs) == 0 || o.Config == configs[0] {
			counts[o.Rule]++
		}
	}
	rules := []string{}
	for rule := range r.floors {
		rules = append(rules, rule)
	}
	sort.Strings(rules)
	for _, rule := range rules {
		if counts[rule] < r.floors[rule] {
			r.curCfg = ""
			r.Undecided(rule, "vacuity", "floor", "-", fmt.Sprintf("rule matched %d instance(s), fewer than the %d confirmed by hand (%s): the rule no longer sees the code it is meant to check", counts[rule], r.floors[rule], r.floorWhy[rule]))
		}
	}
	findings, ferr := loadFindings(filepath.Join(verifDir, "known_findings.txt"))
	if ferr != nil {
		r.Undecided("harness", "known_findings", "parse", "-", ferr.Error())
	}
	known := map[string]Finding{}
	for _, f := range findings {
		if f.Kind == "finding" && f.Prop == r.Prop {
			known[f.Key] = f
		}
	}
	nViol := 0
	printedKnown := map[string]bool{}
	var viols []Ob
	for i := range r.Obs {
		o := &r.Obs[i]
		if o.Status != "violation" && o.Status != "undecided" {
			continue
		}
		if f, ok := known[keyForFile(o.Key)]; ok && o.Status == "violation" {
			o.Status = "known-finding"
			if !printedKnown[f.Key] {
				printedKnown[f.Key] = true
				fmt.Printf("KNOWN-FINDING: property=%s key=%s %s\n", r.Prop, f.Key, f.Text)
			}
			continue
		}
		nViol++
		viols = append(viols, *o)
	}
	replayDir := filepath.Join(verifDir, "evidence", "replay")
	if writeEvidence {
		os.MkdirAll(replayDir, 0o755)
		old, _ := filepath.Glob(filepath.Join(replayDir, r.Prop+"-*.json"))
		for _, f := range old {
			os.Remove(f)
		}
	}
	for i, o := range viols {
		path := filepath.Join(replayDir, fmt.Sprintf("%s-%03d.json", r.Prop, i+1))
		if writeEvidence {
			b, _ := json.MarshalIndent(replayDoc{Property: r.Prop, Tier: r.Tier, Ob: o, Note: "static finding: re-run the check to reproduce; the obligation names rule, construct and position"}, "", " ")
			os.WriteFile(path, b, 0o644)
		}
		fmt.Printf("[%s] %s %s at %s (%s): %s\n", o.Status, o.Rule, o.Key, o.Pos, o.Config, o.Detail)
		fmt.Printf("VIOLATION property=%s replay=%s\n", r.Prop, path)
	}
	// evidence
	perRule := map[string]map[string]int{}
	distinct := map[string]bool{}
	discharged := 0
	byMeans := map[string]int{}
	perRuleBy := map[string]map[string]int{}
	for _, o := range r.Obs {
		m := perRule[o.Rule]
		if m == nil {
			m = map[string]int{}
			perRule[o.Rule] = m
		}
		m[o.Status]++
		distinct[o.Key] = true
		if o.Status == "discharged" {
			discharged++
			by := o.By
			if i := strings.Index(by, ":"); i > 0 {
				by = by[:i]
			}
			if j := strings.Index(by, " ("); j > 0 {
				by = by[:j]
			}
			byMeans[by]++
			if perRuleBy[o.Rule] == nil {
				perRuleBy[o.Rule] = map[string]int{}
			}
			perRuleBy[o.Rule][by]++
		}
	}
	samples := []Ob{}
	seenRule := map[string]int{}
	for _, o := range r.Obs {
		if seenRule[o.Rule] < 2 && len(samples) < 40 {
			seenRule[o.Rule]++
			samples = append(samples, o)
		}
	}
	keys := []string{}
	for k := range distinct {
		keys = append(keys, k)
	}
	sort.Strings(keys)
	cov := map[string]interface{}{
		"explanation":            r.Explain,
		"obligations":            len(r.Obs),
		"discharged":             discharged,
		"evaluations":            len(r.Obs),
		"distinct_nontrivial":    len(distinct),
		"rule":                   "one evaluation = one static obligation (rule instance at a named construct of /repo's current source); distinct = distinct obligation keys rule|function|construct (line independent); all are non-trivial in the sense that each names a construct the rule had to resolve in the type-checked program",
		"samples":                samples,
		"per_rule":               perRule,
		"per_rule_discharged_by": perRuleBy,
		"discharged_by":          byMeans,
		"floors":                 r.floors,
		"build_configs":          configs,
		"known_findings":         len(printedKnown),
		"obligation_keys":        keys,
		"checker_cmd":            "/verif/bin/rarecheck -property " + r.Prop + " -tier " + r.Tier,
		"trusted_base":           []string{"go/types", "go/ssa", "go/cfg", "VTA call graph (x/tools v0.29.0)", "Go compiler prove pass (bounds checks)", "standard library and third-party modules behave as documented", "frozen tables in /verif/checker (anchors, reviewed obligations) - one named construct and reason each"},
		"exhaustive":             false,
		"notes":                  r.Notes,
	}
	if c != nil {
		cov["packages"] = len(c.Pkgs)
		cov["functions"] = c.NFuncs
		if c.cg != nil {
			n := 0
			for _, nd := range c.cg.Nodes {
				n += len(nd.Out)
			}
			cov["callgraph_nodes"] = len(c.cg.Nodes)
			cov["callgraph_edges"] = n
		}
	}
	for k, v := range r.Extra {
		cov[k] = v
	}
	ev := map[string]interface{}{
		"property_id": r.Prop,
		"tier":        r.Tier,
		"seed":        seed,
		"level":       "other",
		"coverage":    cov,
		"assumptions": r.Assume,
		"wall_s":      time.Since(t0).Seconds(),
		"violations":  nViol,
	}
	if writeEvidence {
		os.MkdirAll(filepath.Join(verifDir, "evidence"), 0o755)
		b, _ := json.MarshalIndent(ev, "", " ")
		if err := os.WriteFile(filepath.Join(verifDir, "evidence", r.Prop+".json"), b, 0o644); err != nil {
			fmt.Fprintln(os.Stderr, "cannot write evidence:", err)
			return 2
		}
	}
	fmt.Printf("%s tier=%s configs=%v obligations=%d discharged=%d known-findings=%d violations=%d wall=%.1fs\n",
		r.Prop, r.Tier, configs, len(r.Obs), discharged, len(printedKnown), nViol, time.Since(t0).Seconds())
	if nViol > 0 {
		return 1
	}
	return 0
}

// ---------------------------------------------------------------- anchors

// FuncInfo is a resolved function/method declaration of the repository.
type FuncInfo struct {
	Pkg         *packages.Package
	Decl        *ast.FuncDecl
	Obj         *types.Func
	Name        string // pkgpath.(*T).M
	InlinedInto string // non-empty: the anchor is gone and this is the body of its sole frozen caller
}

// Func resolves a function by package path and name; name is "F", "T.M" or
// "(*T).M" (receiver pointer-ness is ignored when matching).
// anchorsSeen records every anchor looked up in this process (maintenance: -write-anchors).
var anchorsSeen = map[string]*FuncInfo{}

// frozenAnchors: receiver and signature of every anchor function as confirmed on the pinned tree
// (anchors.json, regenerated with `rarecheck -write-anchors`). Used only to recognise an anchor that
// was renamed: same package, same receiver, same signature, and no other function of the package
// has that signature.
//
//go:embed anchors.json
var frozenAnchorsJSON []byte
var frozenAnchors map[string]string

func sigKey(p *packages.Package, fd *ast.FuncDecl) string {
	obj, _ := p.TypesInfo.Defs[fd.Name].(*types.Func)
	if obj == nil {
		return ""
	}
	r := ""
	if fd.Recv != nil && len(fd.Recv.List) == 1 {
		r = recvTypeName(fd.Recv.List[0].Type)
		if _, ok := fd.Recv.List[0].Type.(*ast.StarExpr); ok {
			r = "*" + r
		}
	}
	return r + "|" + types.TypeString(obj.Type(), func(pk *types.Package) string { return pk.Path() })
}

func (c *Ctx) Func(pkgPath, name string) *FuncInfo {
	fi := c.funcByName(pkgPath, name)
	if fi != nil {
		anchorsSeen[pkgPath+"|"+name] = fi
		return fi
	}
	// a helper of the expression language is registered under its user-visible name: resolve it through
	// the registry when its Go name changed
	if key, ok := stageRegistryKey[name]; ok && pkgPath == "rare/pkg/expressions/stdlib" {
		if fi := c.stageFactoryByKey(key); fi != nil {
			return fi
		}
	}
	// renamed? unique function of the package with the frozen receiver and signature
	if frozenAnchors == nil {
		frozenAnchors = map[string]string{}
		_ = json.Unmarshal(frozenAnchorsJSON, &frozenAnchors)
	}
	want, ok := frozenAnchors[pkgPath+"|"+name]
	p := c.ByPath[pkgPath]
	if !ok || want == "" || p == nil {
		return c.inlinedInto(pkgPath, name)
	}
	var cands []*ast.FuncDecl
	for _, f := range p.Syntax {
		for _, d := range f.Decls {
			fd, isF := d.(*ast.FuncDecl)
			if !isF || fd.Body == nil || sigKey(p, fd) != want {
				continue
			}
			// a function that is itself a (present) anchor is not a renamed copy of this one
			other := fd.Name.Name
			if fd.Recv != nil && len(fd.Recv.List) == 1 {
				star := ""
				if _, isStar := fd.Recv.List[0].Type.(*ast.StarExpr); isStar {
					star = "*"
				}
				other = "(" + star + recvTypeName(fd.Recv.List[0].Type) + ")." + fd.Name.Name
			}
			if _, isAnchor := frozenAnchors[pkgPath+"|"+other]; isAnchor {
				continue
			}
			cands = append(cands, fd)
		}
	}
	if len(cands) != 1 {
		return c.inlinedInto(pkgPath, name)
	}
	fd := cands[0]
	obj, _ := p.TypesInfo.Defs[fd.Name].(*types.Func)
	if obj == nil {
		return nil
	}
	return &FuncInfo{Pkg: p, Decl: fd, Obj: obj, Name: pkgPath + "." + name}
}

// inlinedInto: an anchor that existed on the pinned tree, is gone now, and had
// exactly one caller there was most likely folded into that caller
// (inline-method). The rule then reads the caller's body under the anchor's
// frozen name; if the construct it looks for is not there it fails as before.
func (c *Ctx) inlinedInto(pkgPath, name string) *FuncInfo {
	caller := frozenSoleCaller(pkgPath, name)
	if debugAnchor {
		fmt.Fprintf(os.Stderr, "inlinedInto %s %s -> caller %q\n", pkgPath, name, caller)
	}
	if caller == "" {
		return nil
	}
	fi := c.funcByName(pkgPath, caller)
	if debugAnchor {
		fmt.Fprintf(os.Stderr, "  caller resolved: %v\n", fi != nil)
	}
	if fi == nil {
		return nil
	}
	return &FuncInfo{Pkg: fi.Pkg, Decl: fi.Decl, Obj: fi.Obj, Name: pkgPath + "." + name, InlinedInto: caller}
}

func (c *Ctx) funcByName(pkgPath, name string) *FuncInfo {
	p := c.ByPath[pkgPath]
	if p == nil {
		return nil
	}
	recv, fn := "", name
	if i := strings.LastIndex(name, "."); i >= 0 {
		recv, fn = name[:i], name[i+1:]
		recv = strings.Trim(recv, "(*)")
	}
	for _, f := range p.Syntax {
		for _, d := range f.Decls {
			fd, ok := d.(*ast.FuncDecl)
			if !ok || fd.Name.Name != fn {
				continue
			}
			r := ""
			if fd.Recv != nil && len(fd.Recv.List) == 1 {
				r = recvTypeName(fd.Recv.List[0].Type)
			}
			if r != recv {
				continue
			}
			obj, _ := p.TypesInfo.Defs[fd.Name].(*types.Func)
			if obj == nil || fd.Body == nil {
				continue
			}
			return &FuncInfo{Pkg: p, Decl: fd, Obj: obj, Name: pkgPath + "." + name}
		}
	}
	return nil
}

func recvTypeName(e ast.Expr) string {
	switch t := e.(type) {
	case *ast.StarExpr:
		return recvTypeName(t.X)
	case *ast.Ident:
		return t.Name
	case *ast.IndexExpr:
		return recvTypeName(t.X)
	case *ast.IndexListExpr:
		return recvTypeName(t.X)
	case *ast.ParenExpr:
		return recvTypeName(t.X)
	}
	return ""
}

// MustFunc resolves an anchor or records an undecided obligation.
func (c *Ctx) MustFunc(r *Report, rule, pkgPath, name string) *FuncInfo {
	fi := c.Func(pkgPath, name)
	if fi == nil {
		r.Undecided(rule, pkgPath+"."+name, "anchor", "-", "anchor function not found in the type-checked program (renamed or removed): the clause cannot be decided")
	}
	return fi
}

// AllFuncDecls iterates over every function declaration with a body in the
// rare packages whose path has one of the prefixes (all when none given).
func (c *Ctx) AllFuncDecls(prefixes ...string) []*FuncInfo {
	var out []*FuncInfo
	for _, p := range c.Pkgs {
		ok := len(prefixes) == 0
		for _, pre := range prefixes {
			if p.PkgPath == pre || strings.HasPrefix(p.PkgPath, pre+"/") {
				ok = true
			}
		}
		if !ok {
			continue
		}
		for _, f := range p.Syntax {
			for _, d := range f.Decls {
				fd, isf := d.(*ast.FuncDecl)
				if !isf || fd.Body == nil {
					continue
				}
				obj, _ := p.TypesInfo.Defs[fd.Name].(*types.Func)
				if obj == nil {
					continue
				}
				out = append(out, &FuncInfo{Pkg: p, Decl: fd, Obj: obj, Name: funcDisplayName(p.PkgPath, fd)})
			}
		}
	}
	return out
}

func funcDisplayName(pkgPath string, fd *ast.FuncDecl) string {
	if n, ok := renamedDecl[fd]; ok && !resolvingRenames {
		return n
	}
	if fd.Recv != nil && len(fd.Recv.List) == 1 {
		star := ""
		if _, ok := fd.Recv.List[0].Type.(*ast.StarExpr); ok {
			star = "*"
		}
		return fmt.Sprintf("%s.(%s%s).%s", pkgPath, star, recvTypeName(fd.Recv.List[0].Type), fd.Name.Name)
	}
	return pkgPath + "." + fd.Name.Name
}

// stageRegistryKey: Go name on the pinned tree -> key in stdlib.StandardFunctions.
var stageRegistryKey = map[string]string{
	"kfClamp": "clamp", "kfCsv": "csv", "kfMath": "!", "kfArraySelect": "@select", "kfArraySlice": "@slice",
}

// stageFactoryByKey resolves the function registered under key in StandardFunctions.
func (c *Ctx) stageFactoryByKey(key string) *FuncInfo {
	p := c.ByPath["rare/pkg/expressions/stdlib"]
	if p == nil {
		return nil
	}
	var out *FuncInfo
	for _, f := range p.Syntax {
		ast.Inspect(f, func(n ast.Node) bool {
			kv, ok := n.(*ast.KeyValueExpr)
			if !ok {
				return true
			}
			tv, ok := p.TypesInfo.Types[kv.Key]
			if !ok || tv.Value == nil || tv.Value.Kind() != constant.String || constant.StringVal(tv.Value) != key {
				return true
			}
			v := ast.Unparen(kv.Value)
			if ce, ok := v.(*ast.CallExpr); ok && len(ce.Args) == 1 { // KeyBuilderFunction(kfX)
				v = ast.Unparen(ce.Args[0])
			}
			if id, ok := v.(*ast.Ident); ok {
				if fn, ok := p.TypesInfo.Uses[id].(*types.Func); ok {
					if fi := funcDeclOf(c, fn); fi != nil {
						out = fi
					}
				}
			}
			return true
		})
	}
	return out
}

// Renamed anchors keep their frozen names in everything the checker prints or
// compares (obligation keys, reviewed entries, callee names), so that a rename
// changes no verdict and no key.
var renamedDecl = map[*ast.FuncDecl]string{} // declaration -> frozen display name
var renamedFunc = map[*types.Func]string{}   // function object -> frozen FullName
var resolvingRenames bool

// splitDisplayName: "rare/pkg/x.(*T).m" -> ("rare/pkg/x", "(*T).m").
func splitDisplayName(d string) (string, string) {
	slash := strings.LastIndex(d, "/")
	dot := strings.Index(d[slash+1:], ".")
	if dot < 0 {
		return d, ""
	}
	return d[:slash+1+dot], d[slash+1+dot+1:]
}

func frozenFullName(pkgPath, name string) string {
	if strings.HasPrefix(name, "(") {
		// (*T).m -> (*pkg.T).m
		i := strings.Index(name, ")")
		recv := strings.TrimPrefix(name[1:i], "*")
		star := ""
		if strings.HasPrefix(name[1:i], "*") {
			star = "*"
		}
		return "(" + star + pkgPath + "." + recv + ")" + name[i+1:]
	}
	return pkgPath + "." + name
}

// resolveRenames fills renamedDecl / renamedFunc for the loaded program.
func resolveRenames(c *Ctx) {
	renamedDecl = map[*ast.FuncDecl]string{}
	renamedFunc = map[*types.Func]string{}
	if frozenAnchors == nil {
		frozenAnchors = map[string]string{}
		_ = json.Unmarshal(frozenAnchorsJSON, &frozenAnchors)
	}
	resolvingRenames = true
	defer func() { resolvingRenames = false }()
	type hit struct {
		fi           *FuncInfo
		pkgPath, nme string
	}
	var hits []hit
	for k := range frozenAnchors {
		parts := strings.SplitN(k, "|", 2)
		if len(parts) != 2 {
			continue
		}
		if c.funcByName(parts[0], parts[1]) != nil {
			continue // present under its own name
		}
		if fi := c.Func(parts[0], parts[1]); fi != nil && fi.InlinedInto == "" {
			hits = append(hits, hit{fi, parts[0], parts[1]})
		}
	}
	for _, h := range hits {
		renamedDecl[h.fi.Decl] = h.pkgPath + "." + h.nme
		renamedFunc[h.fi.Obj] = frozenFullName(h.pkgPath, h.nme)
	}
}
