package main

// Cross-registration of rules: several properties share a structural
// necessary condition (e.g. "a bad increment is never sampled" is part of the
// aggregator property C07 and of the end-to-end aggregation property C03).
// borrow runs the rule functions of one property into a scratch report and
// files the obligations under another property's rule names.

import "strings"

// borrow runs run(c, sub) and copies every obligation whose rule starts with
// fromPrefix (and passes keep, when given) into r with the prefix replaced.
// Floors of the copied rules are carried over (scaled by floorScale when keep
// filters instances; pass 0 to drop the floors and set them by hand).
func borrow(c *Ctx, r *Report, run func(c *Ctx, r *Report), fromPrefix, toPrefix string, keep func(o Ob) bool, keepFloors bool) int {
	sub := NewReport(r.Prop, r.Tier)
	sub.curCfg = r.curCfg
	run(c, sub)
	n := 0
	for _, o := range sub.Obs {
		if !strings.HasPrefix(o.Rule, fromPrefix) {
			// undecided harness/anchor obligations must not get lost
			if o.Status == "undecided" && !strings.HasPrefix(o.Rule, "C") {
				r.Obs = append(r.Obs, o)
			}
			continue
		}
		if keep != nil && !keep(o) {
			continue
		}
		o.Rule = toPrefix + strings.TrimPrefix(o.Rule, fromPrefix)
		o.Key = toPrefix + strings.TrimPrefix(o.Key, fromPrefix)
		r.Obs = append(r.Obs, o)
		n++
	}
	if keepFloors {
		for k, v := range sub.floors {
			if strings.HasPrefix(k, fromPrefix) {
				r.Floor(toPrefix+strings.TrimPrefix(k, fromPrefix), v, sub.floorWhy[k])
			}
		}
	}
	return n
}
