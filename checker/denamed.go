package main

// Pre-pass of the normalised view: private functions that are new to the
// pinned tree and declare *named results* are rewritten into the equivalent
// form with unnamed results, which the expander (inline.go) can substitute:
//
//	func h(p P) (a A, b B) { body; return }
//	  =>
//	func h(p P) (A, B) { var a A; var b B; body'; return a, b }
//
// with every bare `return` of the function itself turned into `return a, b`.
// Functions with defer / recover are left alone (there a named result can be
// changed after the return statement). The rewrite is purely syntactic and
// preserves behaviour; it is applied to the overlay text and type-checked
// like every other step of the view.

import (
	"bytes"
	"go/ast"
	"go/format"
	"go/parser"
	"go/token"
	"go/types"
	"os"
)

func denameResults(c *Ctx, overlay map[string][]byte) (map[string][]byte, int) {
	out := map[string][]byte{}
	for f, src := range overlay {
		out[f] = src
	}
	n := 0
	for _, p := range c.Pkgs {
		if isTestSupportPkg(p.PkgPath) {
			continue
		}
		for _, file := range p.Syntax {
			fname := c.Fset.Position(file.Pos()).Filename
			// which declarations qualify (decided on the typed tree)
			want := map[string]bool{}
			for _, d := range file.Decls {
				fd, ok := d.(*ast.FuncDecl)
				if !ok || fd.Body == nil || fd.Name.IsExported() || fd.Type.Results == nil || fd.Type.TypeParams != nil {
					continue
				}
				named := false
				for _, fl := range fd.Type.Results.List {
					if len(fl.Names) > 0 {
						named = true
					}
					for _, nm := range fl.Names {
						if nm.Name == "_" {
							named = false
						}
					}
				}
				if !named {
					continue
				}
				if fo, isF := p.TypesInfo.Defs[fd.Name].(*types.Func); !isF || frozenHasFunc(p.PkgPath, funcObjDisplay(fo)) {
					continue
				}
				bad := false
				inspectNoLit(fd.Body, func(x ast.Node) bool {
					switch t := x.(type) {
					case *ast.DeferStmt:
						bad = true
					case *ast.CallExpr:
						if calleeName(p.TypesInfo, t) == "builtin.recover" {
							bad = true
						}
					}
					return true
				})
				if !bad {
					want[declKey(fd)] = true
				}
			}
			if len(want) == 0 {
				continue
			}
			src, has := out[fname]
			if !has {
				b, err := os.ReadFile(fname)
				if err != nil {
					continue
				}
				src = b
			}
			fset := token.NewFileSet()
			pf, err := parser.ParseFile(fset, fname, src, parser.ParseComments)
			if err != nil {
				continue
			}
			changed := false
			for _, d := range pf.Decls {
				fd, ok := d.(*ast.FuncDecl)
				if !ok || fd.Body == nil || !want[declKey(fd)] || fd.Type.Results == nil {
					continue
				}
				var decls []ast.Stmt
				var names []ast.Expr
				var newResults []*ast.Field
				for _, fl := range fd.Type.Results.List {
					for _, nm := range fl.Names {
						decls = append(decls, &ast.DeclStmt{Decl: &ast.GenDecl{Tok: token.VAR, Specs: []ast.Spec{&ast.ValueSpec{Names: []*ast.Ident{ast.NewIdent(nm.Name)}, Type: fl.Type}}}})
						// keep the variable used even if the body never reads it
						decls = append(decls, &ast.AssignStmt{Lhs: []ast.Expr{ast.NewIdent("_")}, Tok: token.ASSIGN, Rhs: []ast.Expr{ast.NewIdent(nm.Name)}})
						names = append(names, ast.NewIdent(nm.Name))
						newResults = append(newResults, &ast.Field{Type: fl.Type})
					}
				}
				// bare returns of the function itself
				var fix func(n ast.Node)
				fix = func(n ast.Node) {
					ast.Inspect(n, func(x ast.Node) bool {
						switch t := x.(type) {
						case *ast.FuncLit:
							return false
						case *ast.ReturnStmt:
							if len(t.Results) == 0 {
								for _, nm := range names {
									t.Results = append(t.Results, ast.NewIdent(nm.(*ast.Ident).Name))
								}
							}
						}
						return true
					})
				}
				fix(fd.Body)
				// falling off the end is impossible for a function with results: the last statement returns
				fd.Type.Results.List = newResults
				fd.Body.List = append(decls, fd.Body.List...)
				changed = true
				n++
			}
			if !changed {
				continue
			}
			var buf bytes.Buffer
			if err := format.Node(&buf, fset, pf); err != nil {
				continue
			}
			out[fname] = buf.Bytes()
		}
	}
	return out, n
}

func declKey(fd *ast.FuncDecl) string {
	k := fd.Name.Name
	if fd.Recv != nil && len(fd.Recv.List) == 1 {
		k = recvTypeName(fd.Recv.List[0].Type) + "." + k
	}
	return k
}
