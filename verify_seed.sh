#!/bin/bash
# usage: verify_seed.sh <seed-dir> <demo-file> <target-pkg-dir> [extra go test flags]
# Confirms in a scratch worktree: demo passes on clean HEAD; with patch applied the
# project builds, the full suite passes (except TestTryWriteCSV) and the demo fails.
export GOFLAGS=-mod=mod GOPROXY=off GOSUMDB=off GOTOOLCHAIN=local
D="$1"; DEMO="$2"; TGT="$3"; shift 3
WT=$(mktemp -d /tmp/wt_vs.XXXXXX); rmdir "$WT"
git -C /repo worktree add -f --detach "$WT" HEAD >/dev/null 2>&1 || { echo "worktree failed"; exit 2; }
trap 'git -C /repo worktree remove --force "$WT" >/dev/null 2>&1' EXIT
cp "$D/$DEMO" "$WT/$TGT/$DEMO"
cd "$WT"
TESTS=$(grep -oE '^func (Test[A-Za-z0-9_]+)' "$D/$DEMO" | awk '{print $2}' | paste -sd'|')
set -- "$@" -run "^($TESTS)\$"
if (cd "$TGT" && timeout 300 go test -vet=off -count=1 "$@" . >"$D/verify_clean.txt" 2>&1); then echo "clean: demo package PASS"; else echo "clean: demo package FAIL (unexpected)"; tail -5 "$D/verify_clean.txt"; exit 1; fi
git apply "$D/patch.diff" || { echo "patch does not apply to HEAD"; exit 3; }
go build ./... || { echo "mutant does not build"; exit 1; }
rm "$TGT/$DEMO"
go test -vet=off -count=1 ./... >"$D/verify_suite.txt" 2>&1
FAILS=$(grep -E '^(--- FAIL|FAIL)' "$D/verify_suite.txt" | grep -v 'TestTryWriteCSV' | grep -v '^FAIL$' | grep -v 'FAIL	rare/cmd/helpers' )
if [ -n "$FAILS" ]; then echo "suite FAILS with mutant:"; echo "$FAILS"; exit 1; fi
echo "mutant: suite passes"
cp "$D/$DEMO" "$TGT/$DEMO"
if (cd "$TGT" && timeout 300 go test -vet=off -count=1 "$@" . >"$D/verify_mutant.txt" 2>&1); then echo "mutant: demo PASS (not detected by demo!)"; exit 1; else echo "mutant: demo FAIL (as expected)"; fi
exit 0
