#!/usr/bin/env python3
"""Runs every seeded mutant in /verif/seeded against the quick check of every claimed
property (in scratch worktrees of /repo HEAD, never in /repo itself) and writes
/verif/seeded/MATRIX.md plus `detected_by` into each meta.json."""
import json, os, subprocess, sys, tempfile, shutil, concurrent.futures as cf

VERIF = '/verif'
props = [c['property_id'] for c in json.load(open(f'{VERIF}/MANIFEST.json'))['checks']]
seeds = sorted(d for d in os.listdir(f'{VERIF}/seeded') if os.path.isfile(f'{VERIF}/seeded/{d}/patch.diff'))
only = sys.argv[1:]
if only:
    seeds = [s for s in seeds if s in only]

def run_seed(sid):
    wt = tempfile.mkdtemp(prefix='wt_mx.', dir='/tmp'); os.rmdir(wt)
    r = subprocess.run(['git', '-C', '/repo', 'worktree', 'add', '-f', '--detach', wt, 'HEAD'], capture_output=True, text=True)
    if r.returncode != 0:
        return sid, None, 'worktree failed'
    try:
        a = subprocess.run(['git', '-C', wt, 'apply', f'{VERIF}/seeded/{sid}/patch.diff'], capture_output=True, text=True)
        if a.returncode != 0:
            return sid, None, 'patch does not apply: ' + a.stderr.strip()[:200]
        det = {}
        for p in props:
            o = subprocess.run([os.environ.get('RARECHECK_BIN', f'{VERIF}/bin/rarecheck'), '-property', p, '-repo', wt, '-no-evidence'], capture_output=True, text=True)
            if o.returncode != 0:
                rules = sorted({l.split()[1] for l in o.stdout.splitlines() if l.startswith('[violation]') or l.startswith('[undecided]')})
                det[p] = rules
        return sid, det, ''
    finally:
        subprocess.run(['git', '-C', '/repo', 'worktree', 'remove', '--force', wt], capture_output=True)

results = {}
with cf.ThreadPoolExecutor(max_workers=8) as ex:
    for sid, det, err in ex.map(run_seed, seeds):
        results[sid] = (det, err)
        print(sid, 'ERR ' + err if det is None else (', '.join(f'{k}:{"/".join(v)}' for k, v in det.items()) or 'NOT DETECTED'), flush=True)

lines = ['# Seeded mutants vs checks', '',
         'Each row is one independently written, verified property-breaking change (see `<id>/meta.json`).',
         '`own` = detected by the check of the property it was written against; `other` = other checks that also fire.', '',
         '| seed | property | own check | rules that fire (own) | other checks |', '|---|---|---|---|---|']
n_det = 0
for sid in sorted(results):
    det, err = results[sid]
    mp = f'{VERIF}/seeded/{sid}/meta.json'
    meta = json.load(open(mp))
    prop = meta['property']
    if det is None:
        lines.append(f'| {sid} | {prop} | n/a | {err} | |')
        continue
    own = det.get(prop, [])
    other = ', '.join(k for k in det if k != prop)
    if own:
        n_det += 1
    lines.append(f'| {sid} | {prop} | {"DETECTED" if own else "missed"} | {", ".join(own)} | {other} |')
    meta['detected_by'] = det
    meta['detected_by_own_check'] = bool(own)
    json.dump(meta, open(mp, 'w'), indent=1)
lines += ['', f'{n_det} of {len(results)} detected by their own property\'s check.']
if not only:
    open(f'{VERIF}/seeded/MATRIX.md', 'w').write('\n'.join(lines) + '\n')
print(f'{n_det}/{len(results)} detected by own check')
