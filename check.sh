#!/bin/sh
# usage: check.sh <property-id> <quick|thorough>
# Builds the checker if needed and decides the property on /repo's working tree.
export GOFLAGS=-mod=mod GOPROXY=off GOSUMDB=off GOTOOLCHAIN=local GOWORK=off
cd /verif || exit 2
if [ ! -x bin/rarecheck ] || [ -n "$(find checker -newer bin/rarecheck -name '*.go' 2>/dev/null | head -1)" ]; then
  (cd checker && go build -o /verif/bin/rarecheck .) || { echo "cannot build rarecheck" >&2; exit 2; }
fi
exec /verif/bin/rarecheck -property "$1" -tier "${2:-quick}" -repo /repo -verif /verif
