"""tiny helper for scripted edits: replace(path, old, new) tolerating one level of tab indentation difference"""
import re,sys
def replace(path, old, new, count=1):
    s=open(path).read()
    if old not in s:
        d=lambda t: "\n".join(l[1:] if l.startswith("\t") else l for l in t.split("\n"))
        if d(old) in s:
            old,new=d(old),d(new)
        else:
            raise SystemExit("pattern not found in %s:\n%s"%(path,old[:200]))
    s=s.replace(old,new,count)
    open(path,'w').write(s)
