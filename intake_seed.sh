#!/bin/bash
# usage: intake_seed.sh <src-dir (has patch.diff, demo test, README.md)> <seed-id> <property> [demo-dir] [go test flags]
# Confirms a sub-agent's seeded change in a scratch worktree (verify_seed.sh), stores it under
# /verif/seeded/<seed-id>/ and runs every claimed check against it (seed_matrix.py <seed-id>).
SRC="$1"; SID="$2"; PROP="$3"; DDIR="$4"; FLAGS="$5"
DEMO=$(cd "$SRC" && ls *_test.go | head -1)
[ -z "$DEMO" ] && { echo "no demo test in $SRC"; exit 2; }
if [ -z "$DDIR" ]; then
  DDIR=$(grep -i -m1 -A3 '\*\*Demo' "$SRC/README.md" | grep -oE '`?(pkg|cmd)/[A-Za-z0-9_/]+' | tr -d '`' | grep -v '_test' | head -1)
  DDIR=${DDIR%/}
  # strip a trailing file component
  case "$DDIR" in *.go) DDIR=$(dirname "$DDIR");; esac
fi
[ -z "$DDIR" ] && { echo "cannot determine demo dir for $SID"; exit 2; }
if [ -z "$FLAGS" ] && grep -i -A3 '\*\*Demo' "$SRC/README.md" | grep -q -- '-race'; then FLAGS="-race"; fi
echo "== $SID demo=$DEMO dir=$DDIR flags=$FLAGS"
/verif/verify_seed.sh "$SRC" "$DEMO" "$DDIR" $FLAGS || { echo "== $SID NOT CONFIRMED"; exit 1; }
/verif/store_seed.py "$SRC" "$SID" "$PROP" "$DEMO" "$DDIR" "$FLAGS" || exit 1
cd /verif && ./seed_matrix.py "$SID" | tail -2
