#!/usr/bin/env python3
"""Regenerates /verif/MANIFEST.json from the table below (kept in one place so
that claimed checks, techniques and not_applicable stay consistent)."""
import json, os

ALL = ["C%02d" % i for i in range(1, 21)]

# id -> (technique, level text, level note, design ref)
CLAIMED = {
 "C08": ("static panic-freedom obligations: compiler prove pass + dominating-guard difference constraints over go/cfg + callee-guard + reviewed table, scope = VTA reachability from Compile/BuildKey",
         "Every construct that can panic or spin in code reachable from expression compilation/evaluation is enumerated from the type-checked source on each run and must be discharged (compiler BCE proof, guard rule, or a reviewed one-construct reason); a new undischarged site is reported with file:line. Structural necessary condition for 'never panics', exhaustive over code paths of the analysed build, not over values.",
         "Trusts go/types, go/cfg, the VTA call graph, the compiler's prove pass, the standard library / third-party modules, and the reviewed table in checker/c08.go. Does not decide allocation failure, stack depth, or panics inside gjson/dateparse.",
         "DESIGN.md §3 C08, §2.1 E-PANIC"),
}

CLAIMED["C19"] = ("static: E-PANIC obligations over stdmath + constant-table agreement (go/constant over composite literals) + effect/purity rules on Eval methods, operator functions and the simplifier probe + error-return discipline over go/cfg facts",
  "Decides crash-freedom obligations of the formula engine, agreement of the operator tables with each other, with the tokenizer window and with the documented precedence, the structural soundness conditions of constant folding (pure operators, counted lookups, fold only under zero lookups) and that failure returns carry non-nil errors. Necessary conditions of the property, exhaustive over the code, not over formulas.",
  "Trusts package math, go/types constant evaluation, the compiler's prove pass and the reviewed entries. Does not decide that parsing follows the documented precedence for every token sequence.",
  "DESIGN.md §3 C19")

CLAIMED["C14"] = ("static panic-freedom and loop-progress obligations over the renderers (compiler prove pass + guard facts + reviewed table with mechanically re-checked guards), palette/bucket table agreement, clamp-dominates-quotient rule on Scaler.Scale, visible-width flow rule",
  "Enumerates every construct that can panic or spin in pkg/multiterm/**, pkg/color, the render callbacks of every command and what they reach, and requires each to be discharged; checks that palette sizes agree with the bucket counts, that unit-interval consumers only receive Scale results, that Scale's quotient is returned only behind its clamps, that the bar-length division is guarded, and that width bookkeeping uses visible lengths. Necessary conditions of 'never crashes / terminates / indexes within bounds'; exhaustive over code paths, not over aggregated states.",
  "Trusts the compiler's prove pass, the reviewed table (checker/c14.go), matcher index contracts and non-negative row/column limits. Does not decide proportionality, alignment, displayed = aggregated, '(n more)' counts.",
  "DESIGN.md §3 C14")

CLAIMED["C05"] = ("static lock-set / atomic-consistency discipline over go/cfg (must-hold lock sets, inferred shared types), typestate of pooled contexts, dominance/post-dominance rules on RunAggregationLoop, WaitGroup/close ordering and semaphore pairing rules",
  "Decides the structural conditions under which the pipeline is race-free and ends with a complete render: every mutable field of a type that owns a mutex or an atomic counter is accessed under that mutex or atomically, everywhere; sampling and periodic rendering hold the output mutex; the final render is unconditional and ordered after the unbuffered done handshake; every channel close is ordered after its senders (defer / WaitGroup discipline); reader slots are released on every exit; pooled contexts are re-bound before use. Exhaustive over code paths and goroutine bodies of the analysed build; does not enumerate schedules.",
  "Trusts go/types, go/cfg, that goroutines start only at go statements, and that composite literals initialise before publication. Does not decide general deadlock freedom or monotonicity of intermediate renders.",
  "DESIGN.md §3 C05, §2.1 E-LOCK")

CLAIMED["C16"] = ("static: map-iteration order analysis (range-over-map bodies classified, collected slices must be sorted before use), constant evaluation of the escape table against the JSON grammar's mandatory escapes, parameter-to-buffer flow rule in JsonObjectBuilder, rune-narrowing lint with guard facts",
  "Decides that no JSON text is produced in hash-map order, that the escape table covers every character JSON requires to be escaped and maps each to its own escape, that keys and values reach the buffer only through escape() (raw literals only when constant or isNumeric-checked), and that no rune is truncated to a byte. Necessary conditions of valid/faithful/deterministic; exhaustive over the code, not over captures.",
  "Trusts strings.Builder / range-over-string. Does not decide decoded equality for every input; the numeric-literal grammar is decided only while isNumeric stays a forward byte scan of the interpreted idiom.",
  "DESIGN.md §3 C16")

CLAIMED["C13"] = ("static: effect analysis of comparator literals (no writes to captured state), per-pair-strategy shape rule, map-iteration order analysis with sorted-before-use through callers, name tie-break rule for name/value comparators, constant evaluation of the calendar tables, shape rules for Reverse / value sorter / modifier table",
  "Decides the structural conditions under which displayed order is a function of the data: pure comparators, no per-pair choice of relation without class ordering, no map order reaching output, tie-breaks on names, Reverse as negation of the same comparator, calendar tables at calendar positions. Two genuine impure comparators (contextual, date) are recorded as known findings.",
  "Trusts sort.Sort, dateparse/time. Does not decide chronological/numeric correctness of each mode.",
  "DESIGN.md §3 C13")
CLAIMED["C03"] = ("static: who-may-call rule for aggregator mutators + lock-set/dominance rules on RunAggregationLoop, map-iteration order analysis, name tie-break rule, flow rules on pkg/csv (encoding/csv only, Flush dominates Close), path enumeration of DetermineErrorState",
  "Decides the determinism clauses of the property that are visible in the code: aggregators are mutated only inside the serialised aggregation loop, no exported result is produced in hash order, CSV records go through encoding/csv and are flushed, and the exit status function returns the documented status on each of its paths and is what every aggregating command returns.",
  "Trusts encoding/csv. Does not decide equality with an independent aggregation for every corpus nor CSV round trip of arbitrary keys.",
  "DESIGN.md §3 C03")

CLAIMED["C01"] = ("static path rules over go/cfg: exhaustive acyclic path enumeration of processLineSync (exactly-once counters), per-iteration path rules and must-pass-through rules on the batcher loops, shape rules on the worker loop, WaitGroup/close ordering, atomic-consistency, guard facts on IgnoreMatch/Truthy",
  "Decides the pipeline-structure conditions of 'every line read once, classified once': counters added exactly once per path and only in the classifying function, every scanned line appended once and every append sent (including the final partial batch), a sent batch never appended to again, the worker visits every line of every batch until the channel is closed, closes ordered after senders, ignore = Truthy. Exhaustive over the code paths of these functions, not over inputs or schedules.",
  "Trusts channel semantics. Does not decide that emitted keys equal a sequential evaluation for every input, nor exact line splitting (C04).",
  "DESIGN.md §3 C01")
CLAIMED["C02"] = ("static value-flow and ordering rules: line-number arithmetic (send -> advance by len(batch) -> fresh batch on every iteration path, BatchStart+index in the worker, parameters into the Match literal), audited unsafe sites with keep-alive flow, scanner buffer write discipline, IntPool no-recycle shape, E-PANIC obligations of group lookup and colour wrapping, separator-by-position rule for the list view, flag flows into the matcher constructors",
  "Decides the structural conditions under which a match carries its true source, line number, text and groups for as long as it is held: numbering arithmetic on all paths, zero-copy view kept alive by the same slice, buffers and index slices never rewritten or recycled, group lookups bounded, flags wired.",
  "Trusts regexp's FindSubmatchIndex contract. Does not decide capture values against regexp semantics, in-order emission, or byte identity of coloured output.",
  "DESIGN.md §3 C02")
CLAIMED["C04"] = ("static write-discipline analysis of scanner buffers (fresh-on-every-path via barrier reachability over go/cfg, tail-beyond-end shape), ordering rules for Read count vs error handling, guard facts for the error callback and for no-read-after-eof, dropCR wiring by branch facts, E-PANIC obligations of pkg/readahead",
  "Decides the aliasing and error clauses: nothing writes into bytes a handed-out line can cover, positions are rewound only with a fresh buffer, bytes read together with an error are kept, the error callback fires only for non-EOF errors, eof is recorded on every error path and nothing is read afterwards, newline-terminated tokens pass through dropCR and the tail does not, all slice expressions are in range.",
  "Assumes readers/callbacks do not re-enter the scanner. Does not decide that tokens are exactly the newline-delimited segments for every chunking.",
  "DESIGN.md §3 C04")

CLAIMED["C06"] = ("static pairing and must-pass-through rules over go/cfg (semaphore release in deferred function, WaitGroup/close ordering, error branch passes incErrors), callback shape rule, discarded-error-result scan, expansion-loop path enumeration and value-flow of the walk callback, constant/guard rule for stdin, path enumeration of the exit-status function",
  "Decides the resource and error clauses: slots and wait groups paired on every exit, every failure to open/follow/read an input counted (so the exit status becomes 2) and no error result silently dropped in the opening code, every path argument emitted/expanded/walked or reported, walked files reported under their own path, stdin named <stdin> under the documented condition, exit-status precedence on every path.",
  "Trusts os/gzip/filepath. Does not decide gzip fidelity, once-per-mention for overlapping globs, nor errors of unreadable directories during a recursive walk (dropped by the code; reviewed limitation).",
  "DESIGN.md §3 C06")

CLAIMED["C10"] = ("static effect analysis of stage closures (ambient reads - direct or through repository callees - must be dominated by a context touch, barrier reachability over go/cfg), touch-propagation path rule on wrapping contexts, guard facts on every use of a static-evaluation result, flow rules for the optimisation switch, pooled-context typestate incl. use-after-Return, registration flow rules",
  "Decides the structural conditions under which constant folding is invisible: a stage that can read the clock, files or mutable package state always touches its context first (and wrappers pass that touch on), the probe counts every lookup, constants are only used where the probe said so, the switch reaches the builder, pooled argument contexts are re-bound per call and not released while in use, funcs-file definitions are registered into the compiling builder.",
  "Assumes package variables written only by main/cmd start-up code are constant during evaluation. Does not decide value equivalence of a call with its substituted body nor the funcs-file lexical layer.",
  "DESIGN.md §3 C10")

CLAIMED["C12"] = ("static: folding-unit agreement rule (type-resolved comparisons in the ignore-case search vs the function that folds pattern literals), index-then-advance dependence rule on the scan position, agreement of the skip predicates between compiler and matcher, E-PANIC obligations of the package, IntPool no-recycle shape",
  "Decides three structural necessary conditions of 'dissect equals its specification; ignore-case only adds matches': pattern and line are folded by the same byte-wise unit, the scan resumes exactly after the delimiter that was found, index pairs are written for exactly the tokens that were counted, all offsets/slices in range, earlier results never recycled.",
  "Trusts strings.Index (first occurrence). Does not decide equality with the specification on all inputs.",
  "DESIGN.md §3 C12")
CLAIMED["C17"] = ("static: separator-discipline rule (guard of every conditional separator write classified: position vs loop start, flag set after each element, non-empty elements), join-loop shape rule, index-then-advance rule on the splitter, pooled sub-context typestate and per-evaluation acquisition, wiring rules of subContext, negative-index normalisation shape, loop/bounds obligations of the array helpers",
  "Decides that result lists are well formed by construction (no separator that does not delimit an element), that the splitter resumes after the whole delimiter, that {0}/{1}/named keys are wired as documented with a context bound per evaluation, that negative indexes are normalised against the list being split, and that the generator loops are bounded.",
  "Trusts strings.Index/Count. Does not decide split/join inverse law nor the generated sequences.",
  "DESIGN.md §3 C17")

CLAIMED["C07"] = ("static path enumeration over go/cfg of the sampling methods (same accumulation set on every path, parse-failure paths counted and not sampled), shape rules for the sub-key counter's rebuild/shift, post-dominance of the min and max comparisons, ordering of count vs divisor, E-PANIC obligations of pkg/aggregation",
  "Decides the redundant-state clauses: totals are accumulated together with their cells on every path, parallel slices stay aligned by construction, parse errors are counted and never sampled, min and max are updated independently, all indexing is in range. Does not decide the numeric results.",
  "Trusts sort.Sort's index contract and the reviewed entries. Value-level equality with the fold of the history is out of reach.",
  "DESIGN.md §3 C07")

CLAIMED["C09"] = ("static guard-fact rules on Compile's error reporting and returns, value-flow rule for the lone-word dispatch, constant evaluation of the escape switch, byte-as-rune lint and whitespace-predicate consistency rule on the two scanners",
  "Decides the error-reporting clause (each malformed construct reported under exactly its defining condition; error set returned iff non-empty), the integer-vs-key dispatch wiring, the escape table, and two consistency conditions of the hand-written scanners (rune indexing, one whitespace predicate). Does not decide the language the scanners accept.",
  "Literal round trip, splitting, quoting and nesting equivalence are language-equivalence claims out of static reach here.",
  "DESIGN.md §3 C09")
CLAIMED["C11"] = ("static must-check rule over go/cfg for every (value, ok|err) parse result in stage closures (flag read before overwritten/abandoned; failure branch returns an error marker), registry vs documentation table agreement",
  "Decides the error-marker clause (non-numeric input can never flow on as a number without its failure flag having been tested, and failure branches return documented markers) and that every documented helper exists. Does not decide the numeric/string laws of the helpers.",
  "All value-level laws (bucket, clamp, csv quoting, separators, unit scaling) are not decided.",
  "DESIGN.md §3 C11")

CLAIMED["C18"] = ("static: evaluation of the quarter expression from its AST for all 12 months, zone-wiring rules (time.Unix followed by In(tz), zone-aware parses only), ISO week/year pairing rule, no float-to-Duration conversion, must-check rule for parse failures in funcsTime.go",
  "Decides one range clause exactly (quarter is 1..4 with Jan-Mar = 1, by evaluating the expression over its whole finite domain) and the wiring clauses: requested zone reaches every parse and every formatted instant, ISO week paired with ISO year, durations from whole numbers, unparseable input yields the marker.",
  "Trusts package time / dateparse for the calendar itself. Format round trip and bucket layouts are not decided.",
  "DESIGN.md §3 C18")

CLAIMED["C20"] = ("static pairing rules per block (emitted movement vs tracked cursor step), barrier-reachability rules over go/cfg (carriage return on every path, erase on every path with ClearLine set), guard-fact rule on the escape-skipping loop, ordering rules for Close and the buffered writer, E-PANIC obligations of the trimmer",
  "Decides the bookkeeping clauses of the live terminal: tracked cursor moves only in step with emitted movement, erase always follows the text when enabled, hide/show paired, trimming index stays within the line, buffered output printed top to bottom before closing. Does not interpret escape sequences.",
  "Screen content after arbitrary update histories and visible-width limits need execution/interpretation of the output and are not decided; no verif hook is needed or added.",
  "DESIGN.md §3 C20")
CLAIMED["C15"] = ("static: constant-capacity and non-blocking-send rules on the notifier's signal channels, read-then-wait shape rule, must-pass-through rules over go/cfg for the poller's offset bookkeeping (count added after every read; seek-or-reset after re-open), timestamp-renewal-only-after-send rule on the time-flush loop",
  "Decides structural necessary conditions of 'every appended byte delivered once': wake-up signals can neither be lost nor block the watcher, the reader always re-reads before it waits, the poller's tracked offset follows every read and every re-open, and the time flush cannot be starved by a steady trickle.",
  "Exactly-once in-order delivery for every history and timing needs the file system, clock and scheduler; not decided.",
  "DESIGN.md §3 C15")


# Clauses added in the second round of seeded changes (appended to technique / level text).
EXTRA = {
 "C01": ("; per-worker matcher instance and fresh-instance rule on CreateInstance implementations", " Also: every worker evaluates with its own, freshly built matcher instance."),
 "C02": ("; pattern-flow rule (compiled pattern = flag value, at most prefixed with (?i)); contiguous-copy rule on colour wrapping (guard facts)", " Also: the compiled pattern is the user's pattern; coloured output copies the line contiguously."),
 "C03": ("; borrowed aggregator rules (same accumulation set on all paths, parse errors counted and not sampled, independent min/max)", " Also: the redundant-state and parse-error rules of the aggregators that feed the result."),
 "C04": ("; return-form rule on dropCR (argument, or argument minus its last byte under the CR test)", " Also: dropCR removes at most the one trailing carriage return."),
 "C05": ("; counters advanced only in the classifying function (count before publish); fresh-instance rule; pool Return at most once per path", " Also: a match is counted before it is published; matcher instances are never shared; pooled contexts are not returned twice."),
 "C06": ("; error-origin rule on openFileToReader (only open/rewind failures make an input unreadable); log-only paths do not count as handling in the expansion loop", " Also: a failed gzip probe falls back to plain reading; an argument that is not a valid pattern is still opened."),
 "C07": ("; barrier-reachability rule: a fresh accumulator row is filled with the initial values before column expressions run", " Also: accumulator rows start from the columns' initial values."),
 "C08": ("; pooled-context typestate (bound before use, returned on every exit, returned at most once)", " Also: pooled contexts cannot be used unbound or pooled twice."),
 "C09": ("; must-pass-through rule: every argument goes through the recursive Compile; byte-as-rune lint generalised to byte variables with ASCII guard facts", " Also: arguments are compiled uniformly; no byte of the template is treated as a code point."),
 "C10": ("; borrowed probe/fold/purity rules of the formula simplifier", " Also: the formula engine's constant folding obeys the probe discipline."),
 "C11": ("; csv-encoded flow rule, floating-point-only scaling rule in unitize, stage closures keep no state", " Also: csv arguments always pass the encoder, unit scaling never truncates in the integer domain, helpers keep no state between evaluations."),
 "C12": ("; nil-only-on-miss guard rule, search-offset re-base rule, fresh-instance rule", " Also: no-match only where a literal was not found; offsets found in a suffix are re-based; instances are fresh."),
 "C13": ("; fresh-comparator rule (no comparator stored in package-level state; no shared comparator built from a constructor with memory)", " Also: comparators with memory cannot be shared between sorts."),
 "C14": ("; monotone rule on the bar block count, scale-agreement rule between the redraw trigger and the draw routines, displayed-values flow rule in DataTable", " Also: bar segments are only rounded down, the bar graph rescales on the quantity it draws, and table figures are the aggregator's own."),
 "C15": ("; event-filter shape rule (equality of names under one normalisation); C01-b rules on the time-flush loop", " Also: directory events of other files cannot be taken for the followed file; time-flushed batches are never re-used."),
 "C16": ("; sort-totality rule for comparator literals over collected keys; byte-widening lint", " Also: keys are only considered sorted by a comparator that distinguishes distinct keys; bytes are never widened to runes on output."),
 "C17": ("; search-offset re-base rule on the splitter; pool Return at most once", " Also: the splitter re-bases offsets found in a suffix; sub-contexts are not pooled twice."),
 "C19": ("; pooled binding wrapper of kfMath: per evaluation, bound before use, returned once", " Also: formula bindings are per evaluation."),
}
for _pid, (_t, _x) in EXTRA.items():
    tech, text, note, ref = CLAIMED[_pid]
    CLAIMED[_pid] = (tech + _t, text + _x, note, ref)

# Clauses added in rounds 3-5 (appended to technique / level text).
EXTRA5 = {
 "C01": ("; class-condition path rule on processLineSync (each counted class backed by its documented decision on the path); worker-forward path rule; gzip-probe must-pass-through rule; C04-a buffer discipline borrowed", " Also: a line is counted ignored only where an ignore expression answered true or the key is known empty; a worker leaves nothing it collected unsent; with -z every successful open probed the content; lines waiting in a batch are not overwritten."),
 "C02": ("; posix-longest origin rule on the regexp back end; result-not-recycled and names-verbatim rules", " Also: under the posix flag the regexp is leftmost-longest (CompilePOSIX or Longest())."),
 "C03": ("; csv-verbatim rule (UseCRLF never set, shadowing Write forwards its record unchanged); C06-b error-counting rules borrowed for the exit status; increment-field flow rule; memo-invalidation rule", " Also: nothing rewrites a record between the aggregate and encoding/csv; read failures always reach the count the exit status reads; the parsed increment is one field of the sample."),
 "C05": ("; snapshot-escape rule (a slice/map field copied under the lock is not used after the unlock while the storage is updated in place); worker-forward path rule; typed stages covered by stage-writes; pool full-init typestate incl. array state", " Also: lock-protected slices are not read through an alias after the unlock; workers forward every collected match before they exit."),
 "C06": ("; gzip-probe must-pass-through rule; walk-decision and whole-gzip-stream rules", " Also: with -z the content is always probed before an input is handed back as plain."),
 "C07": ("; increment-field flow rule; derived-state / memo-invalidation rule", " Also: the increment parsed is the field at its position, not the rest of the sample."),
 "C08": ("; ok-live rule (typed-argument ok results consumed on every path); quotient-descent loop form", ""),
 "C09": ("; errors-recorded path rule on CompilerErrors.add / inherit; metacharacter-set agreement of the two scanners", " Also: an error handed to the collector is always kept."),
 "C10": ("; touch-propagates sharpened to the wrapped GetMatch with the unmodified index; typed stage closures covered by stage-writes; shared function table copy; no state through atomics (one recorded finding)", " Also: negative lookups are forwarded as asked; typed argument wrappers keep no state."),
 "C11": ("; rune-narrowing lint over the helper packages; left-fold who-may-call rule on the arithmetic helpers; integer-exact rule (no int -> float64 -> int round trip; found and fixed expbucket(1e15)); coalesce / decimal-base rules", " Also: characters are never classified by their low byte; arithmetic helpers are a left fold; integer helpers stay in the integers."),
 "C12": ("; token-per-placeholder path rule on the pattern compiler", " Also: every %{..} becomes a token of its own."),
 "C13": ("; both-directions rule (a received comparator is not consulted in both argument orders while Reverse negates); NaN-order guard rule; number-class rule", " Also: compositions of comparators do not rely on strictness that Reverse does not preserve."),
 "C14": ("; scaled-magnitude flow rule (renderers draw Scaler.Scale results only); visible-length rule", " Also: no cell is drawn with a literal magnitude."),
 "C16": ("; E-PANIC obligations over pkg/minijson", " Also: the JSON writer cannot index or slice out of range."),
 "C17": ("; pool full-init typestate with array state (every element of vals assigned before use); done-only-on-miss", " Also: pooled sub-contexts carry no {0}/{1} of a previous user."),
 "C18": ("; duration-authority flow rule (every result derives from time.ParseDuration or is an error marker); map-order analysis over the time helpers; whole-seconds-out", " Also: one parser decides what a duration is; names are not resolved by hash order."),
 "C19": ("; binding-errors rule (failed parse stored in the wrapper, runner decides by that field); unary token agreement, const nodes, opaque groups", " Also: a non-numeric binding is recorded besides the computed value."),
}
for _pid, (_t, _x) in EXTRA5.items():
    tech, text, note, ref = CLAIMED[_pid]
    CLAIMED[_pid] = (tech + _t, text + _x, note, ref)

EXTRA6 = {
 "C01": ("; reader-slot pairing (C06-a) as part of 'every named input is read'", ""),
 "C02": ("; matcher-verbatim rule on methods shadowing the embedded regexp", " Also: the regexp wrapper cannot drop capture groups behind the published name table."),
 "C07": ("; who-may-delete rule (entries are removed by trimming only)", " Also: sampling never removes a cell."),
 "C10": ("; touch-index rule (context touches use a negative constant index)", " Also: the touch of {time live}/{time delta} is one that wrapping contexts forward."),
 "C13": ("; time-precision lint in the sorting package", " Also: dates are ordered at full precision."),
 "C14": ("; more-count agreement rule on the '(n more)' notes", " Also: a '(n more)' note counts what its guard compared."),
 "C18": ("; offset-precision table rule over the named formats", " Also: named formats write zone offsets to the minute."),
 "C16": ("; context-read-only effect rule on the match context; abstract interpretation of the numeric recogniser against the JSON number DFA (typestate of the scan index over byte classes, explored to a fixpoint; found and fixed the leading-zero defect)", " Also: every text isNumeric accepts is a JSON number (decided exactly while the recogniser stays within the interpreted scan idiom; outside it the rule reports 'not decided' and does not fail)."),
}
for _pid, (_t, _x) in EXTRA6.items():
    tech, text, note, ref = CLAIMED[_pid]
    CLAIMED[_pid] = (tech + _t, text + _x, note, ref)

PENDING_REASON = "static check for this property is designed in DESIGN.md §3 but not yet built in this revision of /verif; not claimed until it runs"

def main():
    checks = []
    for pid in ALL:
        if pid not in CLAIMED:
            continue
        tech, text, note, ref = CLAIMED[pid]
        checks.append({
            "property_id": pid,
            "quick_cmd": "/verif/check.sh %s quick" % pid,
            "thorough_cmd": "/verif/check.sh %s thorough" % pid,
            "evidence_file": "/verif/evidence/%s.json" % pid,
            "replay_cmd_template": "cat {path}; /verif/check.sh %s quick" % pid,
            "engine": "rarecheck",
            "level_claimed": {"category": "other", "text": text, "design_ref": ref},
            "level_note": note,
            "technique": tech,
        })
    na = []
    extra = {}
    if os.path.exists("/verif/not_applicable.json"):
        extra = json.load(open("/verif/not_applicable.json"))
    for pid in ALL:
        if pid not in CLAIMED:
            na.append({"property_id": pid, "reason": extra.get(pid, PENDING_REASON)})
    m = {
        "version": 1,
        "setup_cmd": "/verif/setup.sh",
        "hooks": {
            "guard": "verif",
            "enable": "none: the checks are static and need no instrumentation; no hook commit exists in /repo",
            "baseline_off_cmd": "cd /repo && GOFLAGS=-mod=mod GOPROXY=off GOSUMDB=off go test -vet=off -count=1 ./...",
            "source_commits": [],
            "add_only": True,
        },
        "engines": [{
            "name": "rarecheck",
            "path": "/verif/checker",
            "serves_properties": sorted(CLAIMED),
            "kind_free_text": "repository-specific static analyser (go/packages + go/types + go/cfg + go/ssa + VTA call graph, x/tools v0.29.0) plus the Go compiler's prove pass as bounds-check prover; nothing is executed",
        }],
        "checks": checks,
        "not_applicable": na,
        "notes": "All checks are static analysis of /repo's current working tree (technique family: static analysis). Level is 'other' throughout: the checks decide structural necessary conditions of each property, named clause by clause in DESIGN.md §3 and in each evidence file's coverage.explanation. known_findings.txt lists genuine defects (recorded or fixed).",
    }
    json.dump(m, open("/verif/MANIFEST.json", "w"), indent=1)
    print("claimed:", sorted(CLAIMED), "not_applicable:", [x["property_id"] for x in na])

if __name__ == "__main__":
    main()
