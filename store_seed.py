#!/usr/bin/env python3
"""store_seed.py <src dir> <seed id> <property> <demo file> <demo dir> [flags]
Copies a verified seeded mutant into /verif/seeded/<seed id>/ with meta.json."""
import sys, os, shutil, json, re
src, sid, prop, demo, demodir = sys.argv[1:6]
flags = sys.argv[6] if len(sys.argv) > 6 else ""
dst = os.path.join('/verif/seeded', sid)
os.makedirs(dst, exist_ok=True)
shutil.copy(os.path.join(src, 'patch.diff'), os.path.join(dst, 'patch.diff'))
shutil.copy(os.path.join(src, demo), os.path.join(dst, demo))
readme = open(os.path.join(src, 'README.md')).read()
open(os.path.join(dst, 'NOTES.md'), 'w').write(readme)
# what it needs: look for a "needs"/"manifest" paragraph
needs = ""
m = re.search(r'(?is)(what it needs[^\n]*\n|needs[^\n]*:\s*)(.+?)(\n#|\n\n\*\*|\n## |\Z)', readme)
if m:
    needs = ' '.join(m.group(2).split())[:600]
files = sorted(set(re.findall(r'^\+\+\+ b/(\S+)', open(os.path.join(dst, 'patch.diff')).read(), re.M)))
meta = {
    "seed_id": sid,
    "property": prop,
    "files_changed": files,
    "demo_file": demo,
    "demo_dir": demodir,
    "demo_flags": flags,
    "needs_to_manifest": needs,
    "confirmed_by": "/verif/verify_seed.sh: in a scratch worktree of /repo HEAD the demo passes on the clean tree; with patch.diff applied `go build ./...` succeeds, `go test -vet=off -count=1 ./...` fails only the baseline's always-failing TestTryWriteCSV, and the demo fails",
    "origin": "independent sub-agent given only the property text and its own worktree",
}
json.dump(meta, open(os.path.join(dst, 'meta.json'), 'w'), indent=1)
print("stored", sid)
