#!/opt/veriftools/pyvenv/bin/python
import json, jsonschema, sys, glob
jsonschema.validate(json.load(open('/verif/MANIFEST.json')), json.load(open('/root/.vp/MANIFEST.schema.json')))
print('manifest ok')
es = json.load(open('/root/.vp/EVIDENCE.schema.json'))
for f in sorted(glob.glob('/verif/evidence/C*.json')):
    jsonschema.validate(json.load(open(f)), es)
    print(f, 'ok')
