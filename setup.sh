#!/bin/sh
export GOFLAGS=-mod=mod GOPROXY=off GOSUMDB=off GOTOOLCHAIN=local GOWORK=off
cd /verif/checker && go build -o /verif/bin/rarecheck . && echo "rarecheck built"
