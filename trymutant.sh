#!/bin/sh
# usage: trymutant.sh <patch.diff|commit-ish> <property> [more properties]
# Applies a patch to a scratch worktree of /repo's HEAD (never to /repo itself),
# runs the quick check(s) against it and removes the worktree again.
P="$1"; shift; [ -f "$P" ] && P=$(realpath "$P")
WT=$(mktemp -d /tmp/wt_mut.XXXXXX)
rmdir "$WT"
if [ -f "$P" ]; then
  git -C /repo worktree add -f --detach "$WT" HEAD >/dev/null 2>&1 || exit 2
  git -C "$WT" apply "$P" || { echo "patch does not apply"; git -C /repo worktree remove --force "$WT"; exit 2; }
else
  git -C /repo worktree add -f --detach "$WT" "$P" >/dev/null 2>&1 || exit 2
fi
rc=0
for prop in "$@"; do
  /verif/bin/rarecheck -property "$prop" -repo "$WT" -no-evidence | grep -v '^VIOLATION' | cut -c1-400
  [ "${PIPESTATUS:-0}" != 0 ] && rc=1
done
git -C /repo worktree remove --force "$WT"
exit $rc
