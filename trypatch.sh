#!/bin/bash
# usage: trypatch.sh <patch.diff> <prop> [<prop>...]  — applies the patch to a scratch worktree of /repo HEAD and runs the quick checks (static only)
P=$(realpath "$1"); shift
WT=$(mktemp -d /tmp/wt_tp.XXXXXX); rmdir $WT
git -C /repo worktree add -f --detach $WT HEAD >/dev/null 2>&1 || exit 2
trap 'git -C /repo worktree remove --force $WT >/dev/null 2>&1' EXIT
git -C $WT apply "$P" || { echo "patch does not apply"; exit 3; }
for p in "$@"; do
  ${RC:-/verif/bin/rarecheck} -property $p -repo $WT -no-evidence 2>&1 | grep -E '^\[violation\]|^\[undecided\]|tier=|^note' | cut -c1-${COLS:-420}
done
