#!/usr/bin/env python3
"""Applies every behaviour-preserving refactoring (args: *.diff files, default /verif/neutral/*.diff)
to a scratch worktree of /repo HEAD and runs every claimed quick check: all must stay silent."""
import json, os, subprocess, sys, tempfile, glob, concurrent.futures as cf
VERIF='/verif'
props=[c['property_id'] for c in json.load(open(f'{VERIF}/MANIFEST.json'))['checks']]
patches=[os.path.abspath(p) for p in sys.argv[1:]] or sorted(glob.glob(f'{VERIF}/neutral/*.diff'))
def run(patch):
    wt=tempfile.mkdtemp(prefix='wt_nt.',dir='/tmp'); os.rmdir(wt)
    subprocess.run(['git','-C','/repo','worktree','add','-f','--detach',wt,'HEAD'],capture_output=True)
    try:
        a=subprocess.run(['git','-C',wt,'apply',patch],capture_output=True,text=True)
        if a.returncode!=0: return patch,None,'does not apply: '+a.stderr.strip()[:150]
        alarms={}
        for p in props:
            o=subprocess.run([os.environ.get('RARECHECK_BIN', f'{VERIF}/bin/rarecheck'),'-property',p,'-repo',wt,'-no-evidence'],capture_output=True,text=True)
            if o.returncode!=0:
                alarms[p]=[l[:300] for l in o.stdout.splitlines() if l.startswith('[violation]') or l.startswith('[undecided]')]
        return patch,alarms,''
    finally:
        subprocess.run(['git','-C','/repo','worktree','remove','--force',wt],capture_output=True)
bad=0
with cf.ThreadPoolExecutor(max_workers=8) as ex:
    for patch,alarms,err in ex.map(run,patches):
        name=patch.replace('/tmp/neutral/','').replace(f'{VERIF}/neutral/','')
        if alarms is None: print(name,'ERR',err); continue
        if alarms:
            bad+=1
            print(name,'FALSE ALARM')
            for p,ls in alarms.items():
                for l in ls: print('    ',p,l)
        else: print(name,'silent')
print('false alarms:',bad,'of',len(patches))
