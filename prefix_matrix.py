#!/usr/bin/env python3
"""For every `fixed:` line of known_findings.txt: revert that fix commit in a scratch
worktree of /repo HEAD and run the property's quick check on it; the defect must be
found again (a fixed entry suppresses nothing)."""
import re, subprocess, tempfile, os, sys, concurrent.futures as cf
VERIF='/verif'
ents=[]
for l in open(f'{VERIF}/known_findings.txt'):
    m=re.match(r'fixed:\s+property=(\S+)\s+([0-9a-f]{7,})\s+(.*)',l)
    if m: ents.append(m.groups())
def run(e):
    prop,commit,what=e
    wt=tempfile.mkdtemp(prefix='wt_pf.',dir='/tmp'); os.rmdir(wt)
    subprocess.run(['git','-C','/repo','worktree','add','-f','--detach',wt,'HEAD'],capture_output=True)
    try:
        a=subprocess.run(['git','-C',wt,'revert','-n','--no-edit',commit],capture_output=True,text=True)
        if a.returncode!=0:
            # later fixes touch the same lines: fall back to the tree just before the fix
            subprocess.run(['git','-C',wt,'revert','--abort'],capture_output=True)
            subprocess.run(['git','-C',wt,'reset','--hard','-q',commit+'^'],capture_output=True)
        o=subprocess.run([f'{VERIF}/bin/rarecheck','-property',prop,'-repo',wt,'-no-evidence'],capture_output=True,text=True)
        rules=sorted({l.split()[1] for l in o.stdout.splitlines() if l.startswith('[violation]') or l.startswith('[undecided]')})
        return e,(o.returncode!=0,rules),''
    finally:
        subprocess.run(['git','-C','/repo','worktree','remove','--force',wt],capture_output=True)
bad=0
with cf.ThreadPoolExecutor(max_workers=6) as ex:
    for e,res,err in ex.map(run,ents):
        if res is None: print(e[0],e[1],'ERR',err); bad+=1; continue
        if not res[0]: bad+=1
        print(e[0],e[1],'re-found' if res[0] else 'NOT FOUND',','.join(res[1]))
print('not re-found:',bad,'of',len(ents))
