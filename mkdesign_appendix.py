#!/usr/bin/env python3
"""Regenerates the generated appendix of DESIGN.md (between the GENERATED markers):
the rule inventory per property as it is implemented (from the evidence files the
checker wrote on its last run), and the matrix of seeded changes vs rules
(from /verif/seeded/*/meta.json as filled by seed_matrix.py)."""
import json, os, glob, re, collections

V = '/verif'
BEGIN = '<!-- GENERATED:BEGIN (mkdesign_appendix.py) -->'
END = '<!-- GENERATED:END -->'

out = [BEGIN, '',
       '## 9. Rule inventory as implemented (generated from the evidence of the last run)', '',
       'Per property: every rule the checker evaluates, the number of obligations (rule instances',
       'at named constructs) per build configuration on the current tree, the vacuity floor the check',
       'enforces (fewer instances than the floor = failure), and by which means the instances were discharged.',
       'The seeds column lists the seeded changes (section 10) that make the rule fire.', '']

seeds = {}
for mp in sorted(glob.glob(f'{V}/seeded/*/meta.json')):
    m = json.load(open(mp))
    seeds[m['seed_id']] = m
rule_seeds = collections.defaultdict(set)
for sid, m in seeds.items():
    for prop, rules in (m.get('detected_by') or {}).items():
        for r in rules:
            rule_seeds[r].add(sid)

for i in range(1, 21):
    pid = f'C{i:02d}'
    p = f'{V}/evidence/{pid}.json'
    if not os.path.exists(p):
        continue
    e = json.load(open(p))
    c = e['coverage']
    ncfg = max(1, len(c.get('build_configs', [1])))
    out.append(f'### {pid}  ({c["evaluations"] // ncfg} obligations per configuration, {c["distinct_nontrivial"]} distinct keys)')
    out.append('')
    out.append('| rule | instances | floor | discharged by | fired on seeds |')
    out.append('|---|---|---|---|---|')
    by_rule = {k: collections.Counter(v) for k, v in (c.get('per_rule_discharged_by') or {}).items()}
    rules = sorted(set(list(c.get('per_rule', {}).keys()) + list(c.get('floors', {}).keys())))
    for r in rules:
        pr = c.get('per_rule', {}).get(r, {})
        n = sum(pr.values()) // ncfg
        fl = c.get('floors', {}).get(r, '')
        by = ', '.join(f'{k} {v // ncfg}' for k, v in sorted(by_rule.get(r, {}).items()))
        sd = ', '.join(sorted(rule_seeds.get(r, [])))
        out.append(f'| {r} | {n} | {fl} | {by} | {sd} |')
    out.append('')

out += ['## 10. Seeded changes and which checks catch them (generated)', '',
        'Each seeded change was written by an independent sub-agent that saw only the property text and a',
        'scratch worktree (nothing from /verif), and was confirmed in a scratch worktree: the demonstration passes',
        'on the unchanged tree; with the change the project builds, the existing suite passes, the demonstration fails.',
        '`own` = the check of the property the change was written against; `others` = further checks that fire.', '',
        '| seed | property | what it changes (file) | own check: rules that fire | others |', '|---|---|---|---|---|']
nd = 0
for sid in sorted(seeds):
    m = seeds[sid]
    det = m.get('detected_by') or {}
    own = det.get(m['property'], [])
    nd += bool(own)
    others = ', '.join(f'{k}' for k in sorted(det) if k != m['property'])
    files = ', '.join(m.get('files_changed', []))
    out.append(f'| {sid} | {m["property"]} | {files} | {", ".join(own) if own else "**missed**"} | {others} |')
out += ['', f'{nd} of {len(seeds)} seeded changes are detected by the check of their own property. '
        'Misses are discussed in section 8.', '', END]

text = open(f'{V}/DESIGN.md').read()
block = '\n'.join(out)
if BEGIN in text:
    text = re.sub(re.escape(BEGIN) + r'.*?' + re.escape(END), lambda _: block, text, flags=re.S)
else:
    text = text.rstrip('\n') + '\n\n' + block + '\n'
open(f'{V}/DESIGN.md', 'w').write(text)
print('appendix written:', len(out), 'lines')
